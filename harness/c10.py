"""C10 - templates may shadow caller data but never change it; lookup precedence holds.

TLC enumerates every subset of the namespace layers binding one name (x, now, today) with
distinct values - block scope, local, render argument, matter, template global, environment
global, built-in, counter - computes what each read resolves to (LookupPrecedence is what
LiquidSem!Resolve states) and exports the behaviours; the library must print the same value.
Immutability: every behaviour of the layers, confused (every filter over every container),
loops and scopes focuses is rendered on a deep copy of the data which must be deep-equal to
the original afterwards, whether the render succeeded or not.
"""
from __future__ import annotations

from . import gen, replay
from .c01 import constructs
from .common import Check


def judge(rec, opts):
    replay.LOOP_CAP = 5000 if str(rec.get("focus", "")).startswith("confused") else None
    out = []
    if not opts.get("compare"):
        # the same data handed over through another layer (argument, matter, template
        # global, environment global), chosen by the record's content
        import zlib
        k = zlib.crc32(repr(rec["templates"]).encode()) % 4
        d = [[], [], [], []]
        d[k] = rec["data"][0]
        rec = dict(rec, data=d)
    got, extras = replay.render_record(rec)
    if not extras["data_unchanged"]:
        out.append((f"data-mutated:{constructs(rec)}:{rec['templates'][0][1][:60]}", {"got": got}))
    if opts.get("compare") and not rec["data"][1]:
        # the same lookup through a caching loader, first load and cache hit
        from liquid2 import CachingDictLoader
        layers = [replay.layer(x) for x in rec["data"]]
        templates = {replay.conc(n): replay.conc(t) for n, t in rec["templates"]}
        env = replay.make_env(rec["cfg"], loader=CachingDictLoader(templates), env_globals=layers[3])
        # an earlier caller loaded the same template with other template globals: nothing of that may stay
        names = {k for l in layers for k in l} | {"x", "now", "today"}
        try:
            env.get_template(replay.conc(rec["main"]), globals={n: "STALE" for n in names}).render()
        except Exception:  # noqa: BLE001
            pass
        for attempt in ("first-load", "cache-hit"):
            g2 = replay.outcome(lambda: env.get_template(replay.conc(rec["main"]), globals=layers[2] or None).render(**layers[0]))
            f2 = replay.compare(rec, g2)
            if f2 is not None and f2["clause"] in ("output", "outcome", "error-class"):
                bits = "".join("1" if l else "0" for l in rec["data"])
                out.append((f"precedence-via-caching-loader:{attempt}:layers={bits}:{constructs(rec)}", f2))
    if opts.get("compare"):
        f = replay.compare(rec, got)
        if f is not None and f["clause"] in ("output", "outcome", "error-class"):
            layers = "".join("1" if l else "0" for l in rec["data"])
            out.append((f"precedence:{f['clause']}:layers={layers}:{constructs(rec)}", f))
    return out


def judge_matter(rec, opts):
    """Loader matter belongs to the template that is rendered: the matter of a parent (or of a partial) a chain loads
    takes no part in the lookup order - the page is the one rendered without it - and is left as it was."""
    import copy

    from liquid2 import DictLoader
    from liquid2.loader import TemplateSource
    templates = {replay.conc(n): replay.conc(t) for n, t in rec["templates"]}
    main = replay.conc(rec["main"])
    args = replay.layer(rec["data"][0])
    names = set(args) | {"v", "x", "block"}
    matter = {n: {k: f"MATTER-OF-{n}" for k in names if k != "block"} for n in templates if n != main}
    before = copy.deepcopy(matter)

    class MatterLoader(DictLoader):
        def get_source(self, env, template_name, *, context=None, **kwargs):
            src = super().get_source(env, template_name, context=context, **kwargs)
            return TemplateSource(src[0], src[1], src[2], matter.get(template_name))

        async def get_source_async(self, env, template_name, *, context=None, **kwargs):
            return self.get_source(env, template_name, context=context, **kwargs)

    out = []
    plain = replay.outcome(lambda: replay.make_env(rec["cfg"], loader=DictLoader(dict(templates))).get_template(main).render(**args))
    for mode in ("sync", "async"):
        env = replay.make_env(rec["cfg"], loader=MatterLoader(dict(templates)))

        def go():
            if mode == "sync":
                return env.get_template(main).render(**args)
            import asyncio

            async def co():
                t = await env.get_template_async(main)
                return await t.render_async(**args)
            return asyncio.run(co())
        got = replay.outcome(go)
        if got.get("ok") != plain.get("ok") or got.get("out") != plain.get("out") or got.get("err") != plain.get("err"):
            out.append((f"parent-matter-in-lookup:{mode}:{'entered-via-' + main if main in ('inc', 'ren') else 'chain'}",
                        {"templates": templates, "main": main, "without": plain, "with": got}))
            break
        if matter != before:
            out.append((f"data-mutated:parent-matter:{mode}", {"templates": templates}))
            break
    return out


def check(tier: str) -> int:
    chk = Check("C10", tier)
    chk.assumptions += ["deep equality via == on JSON-like Python values (dict/list/str/int/bool/None/range)",
                        "the clock behind now/today is replaced by a fixed one in the harness process",
                        "TLC, Json/IOUtils modules, CPython"]
    for name in ("x", "now", "today"):
        r = gen.run_focus(chk, "MC_Layers", f"layers-{name}", max_top=5, extra_constants={"Name": f'"{name}"'})
        if r is not None:
            try:
                gen.replay_file(chk, r.workdir / "out.ndjson", "harness.c10", "judge", {"compare": True})
            finally:
                r.cleanup()
    r = gen.run_focus(chk, "MC_Lambda", "lambda", max_top=4)
    if r is not None:
        try:
            gen.replay_file(chk, r.workdir / "out.ndjson", "harness.c10", "judge", {"compare": True})
        finally:
            r.cleanup()
    plans = [("MC_Confused", "confused", {}, 1, 1), ("MC_Loops", "loops-single", {"Variant": '"single"'}, 1, 1),
             ("MC_Scopes", "scopes", {}, 2, 2), ("MC_Flow", "flow", {}, 1, 1)]
    for module, name, consts, q, t in plans:
        r = gen.run_focus(chk, module, name, max_top=t if tier == "thorough" else q, extra_constants=consts,
                          export="ExportInputs", invariants=())
        if r is not None:
            try:
                gen.replay_file(chk, r.workdir / "out.ndjson", "harness.c10", "judge", {"compare": False})
            finally:
                r.cleanup()
    # chains of templates (LiquidInherit): the matter a loader gives for a parent or a partial is not in the lookup order
    from . import tlc
    consts = {"MaxDepth": "2", "Focus": '"inherit-matter"', "AutoEsc": "FALSE"}
    r = tlc.run("LiquidInherit", tlc.cfg_text(constants=consts, invariants=["Export"]), tag="inherit-matter",
                extra_files={"concrete.json": gen.CONCRETE}, timeout=7000)
    try:
        if r.error:
            chk.machinery_error = r.error
        else:
            chk.tlc(r, "chains of depth <= 2 (LiquidInherit) rendered with and without loader matter on the parents and partials")
            gen.replay_file(chk, r.workdir / "out.ndjson", "harness.c10", "judge_matter")
    finally:
        r.cleanup()
    return chk.finish()


def replay_file(path: str) -> int:
    from . import c01
    return c01.replay_file(path)
