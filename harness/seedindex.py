#!/venv/bin/python
"""Write /verif/seeded/INDEX.md from the meta.json of every seeded change."""
import json
from pathlib import Path

VERIF = Path(__file__).resolve().parent.parent
rows = []
for d in sorted((VERIF / "seeded").iterdir()):
    m = d / "meta.json"
    if not m.exists():
        continue
    j = json.loads(m.read_text())
    chk = j.get("check", {})
    sigs = [s.replace("signature:", "").strip().strip('",') for s in chk.get("violation_lines", []) if "signature" in s]
    rows.append((d.name, j.get("property"), (j.get("what") or "").replace("\n", " ").replace("|", "/")[:230],
                 "yes" if j.get("confirmed", {}).get("all") else "NO",
                 ("obsolete" if j.get("obsolete") else "yes" if chk.get("detected") else "NO"), (sigs[0] if sigs else (j.get("obsolete") or ""))[:200]))
out = ["# Seeded property-breaking changes", "",
       "Written by independent sub-agents that saw only the property text; each passes the repository's test suite and fails its own demo.",
       "`confirmed` = patch applies, suite passes with it, demo fails with it and passes without; `detected` = the property's quick check exits 1 "
       "with the change applied (harness/seedtest.py).", "",
       "| seed | property | change | confirmed | detected | first signature |", "|---|---|---|---|---|---|"]
for r in rows:
    out.append("| " + " | ".join(str(x) for x in r) + " |")
out.append("")
out.append("Each change was confirmed and detected against the /repo HEAD of the day it was collected (the repairs of genuine defects made "
           "since then touch some of the same lines: `git apply --check` of an older patch.diff on today's HEAD can fail; patches were "
           "rebased - same edit, new context - when a repair landed in the session that was using them).")
out.append("")
out.append(f"{len(rows)} changes: {sum(1 for r in rows if r[4] == 'yes')} detected, {sum(1 for r in rows if r[4] == 'obsolete')} obsolete "
           f"(neutralised by a repair of a genuine defect), {sum(1 for r in rows if r[4] == 'NO')} missed.")
(VERIF / "seeded" / "INDEX.md").write_text("\n".join(out) + "\n")
print(out[-1])
