"""C16 - strict undefined raises only for missing variables and refines the default.

TLC renders every program of the undef focus under the default policy and in "touch" mode
(fail at the first lookup that yields an undefined - the most eager reading of "uses a
variable that does not exist"), checks PolicyIrrelevantWithoutTouch on the reference, and
exports both; the harness renders each behaviour under Undefined, StrictUndefined and
FalsyStrictUndefined and requires:
  (a) the default policy never raises UndefinedError and produces the model's result,
  (b) a strict / falsy-strict render that succeeds equals the default-policy output,
  (c) UndefinedError under a strict policy only if the model's run touched an undefined.
"""
from __future__ import annotations

from . import gen, replay
from .c01 import constructs
from .common import Check


def judge(rec, opts):
    out = []
    res = {}
    for pol in ("default", "strict", "falsy"):
        r2 = dict(rec, cfg=dict(rec["cfg"], undef=pol))
        res[pol], _ = replay.render_record(r2)
    d = res["default"]
    what = constructs(rec)
    if d.get("nonliquid"):
        return out       # C02's business
    if not d["ok"] and "UndefinedError" in d.get("mro", []):
        out.append((f"default-raises-UndefinedError:{what}", {"got": d}))
    f = replay.compare(rec, d)
    if f is not None and f["clause"] in ("output", "outcome", "error-class"):
        out.append((f"default-differs-from-model:{f['clause']}:{what}", f))
    for pol in ("strict", "falsy"):
        s = res[pol]
        if s.get("nonliquid"):
            continue
        if s["ok"] and d["ok"] and s["out"] != d["out"]:
            out.append((f"{pol}-succeeds-with-different-output:{what}", {"default": d, pol: s}))
        if s["ok"] and not d["ok"]:
            out.append((f"{pol}-succeeds-where-default-fails:{what}", {"default": d, pol: s}))
        if not s["ok"] and "UndefinedError" in s.get("mro", []) and not rec["expect"]["touched"]:
            out.append((f"{pol}-raises-without-missing-variable:{what}", {"default": d, pol: s}))
        # ... and only where the reference's reading of the policy uses the undefined (binding it to a name is no use)
        elif not s["ok"] and "UndefinedError" in s.get("mro", []) and rec["expect"].get(pol) == "":
            out.append((f"{pol}-raises-without-use:{what}", {"default": d, pol: s}))
    return out


def check(tier: str) -> int:
    chk = Check("C16", tier)
    chk.assumptions += ["'uses a missing variable' is read eagerly: any lookup that yields an undefined counts (one-sided oracle)",
                        "TLC, Json/IOUtils modules, CPython"]
    plans = [("MC_Undef", "undef", {"Variant": '"single"'}, 1, 2), ("MC_Undef", "undef-probe", {"Variant": '"probe"'}, 3, 3), ("MC_Flow", "flow", {}, 1, 1), ("MC_Bool", "bool", {"Variant": '"ops"'}, 1, 1),
             # nothing is missing here: loops around partials, macros and nested loops under the strict policies
             ("MC_Scopes", "scopes-u", {}, 2, 2), ("MC_Loops", "loops-nest-u", {"Variant": '"nest"'}, 1, 1)]
    for module, name, consts, q, t in plans:
        r = gen.run_focus(chk, module, name, max_top=t if tier == "thorough" else q, extra_constants=consts,
                          invariants=("Total", "PolicyIrrelevantWithoutTouch"), export="ExportUndef", timeout=6000)
        if r is None:
            continue
        try:
            gen.replay_file(chk, r.workdir / "out.ndjson", "harness.c16", "judge")
        finally:
            r.cleanup()
    return chk.finish()


def replay_file(path: str) -> int:
    import json
    d = json.load(open(path))
    rec = d["record"]["record"]
    print(rec["templates"], rec["data"], rec["expect"])
    for sig, det in judge(rec, {}):
        print("FAILS:", sig, det)
        print(f"VIOLATION property=C16 replay={path}")
        return 1
    print("conforms")
    return 0
