"""C->S recording for Trace_Scope.tla: the push / pop events of the render context's chain maps
and the enter / exit events of syntax-tree nodes, observed from outside the library by wrappers
around ReadOnlyChainMap.push/pop and Node.render/render_async (nothing in /repo is edited)."""
from __future__ import annotations

import asyncio
import json

EVENTS: list = []
_IDS: dict = {}
_ON = False
_PATCHED = False


def _mid(m) -> int:
    k = id(m)
    if k not in _IDS:
        _IDS[k] = len(_IDS) + 1
    return _IDS[k]


def patch() -> None:
    global _PATCHED
    if _PATCHED:
        return
    import liquid2.ast as ast
    from liquid2.utils.chainmap import ReadOnlyChainMap as CM
    push, pop = CM.push, CM.pop
    render, render_async = ast.Node.render, ast.Node.render_async

    def kind(node) -> str:
        return type(node).__name__

    def w_push(self, ns):
        if _ON:
            EVENTS.append({"e": "push", "m": _mid(self), "n": "", "raised": False})
        return push(self, ns)

    def w_pop(self):
        if _ON:
            EVENTS.append({"e": "pop", "m": _mid(self), "n": "", "raised": False})
        return pop(self)

    def w_render(self, context, buffer):
        if not _ON:
            return render(self, context, buffer)
        EVENTS.append({"e": "enter", "m": 0, "n": kind(self), "raised": False})
        ok = False
        try:
            rv = render(self, context, buffer)
            ok = True
            return rv
        finally:
            EVENTS.append({"e": "exit", "m": 0, "n": kind(self), "raised": not ok})

    async def w_render_async(self, context, buffer):
        if not _ON:
            return await render_async(self, context, buffer)
        EVENTS.append({"e": "enter", "m": 0, "n": kind(self), "raised": False})
        ok = False
        try:
            rv = await render_async(self, context, buffer)
            ok = True
            return rv
        finally:
            EVENTS.append({"e": "exit", "m": 0, "n": kind(self), "raised": not ok})

    CM.push, CM.pop = w_push, w_pop
    ast.Node.render, ast.Node.render_async = w_render, w_render_async
    _PATCHED = True


def record(template, data: dict, mode: str = "sync") -> tuple[list, bool]:
    """Render; return the event sequence and whether the render raised."""
    global _ON
    patch()
    EVENTS.clear()
    _IDS.clear()
    _ON = True
    raised = False
    try:
        if mode == "sync":
            template.render(**data)
        else:
            asyncio.run(template.render_async(**data))
    except Exception:  # noqa: BLE001
        raised = True
    finally:
        _ON = False
    return list(EVENTS), raised


def dumps(tid: str, events: list) -> str:
    return json.dumps({"id": tid, "events": events}, ensure_ascii=True)
