"""S->C for LiquidLexer.tla: the token list the machine computes for a source is what tokenize() returns.

TLC runs the step machine of spec/LiquidLexer.tla on every source of a focus (checking PointersOK,
PrefixTiling, Nested, FinalTiling, WcShape and Progress on the machine itself) and exports, per source,
`done` + the tokens (kind, span, whitespace control, tag name, children) or `error`.  The library must
raise a LiquidSyntaxError exactly where the machine says `error`, and otherwise return exactly those
tokens.
"""
from __future__ import annotations

from . import tlc
from .common import Check

INVARIANTS = ["PointersOK", "PrefixTiling", "Nested", "FinalTiling", "WcShape", "Export"]

#        focus        alphabet        quick thorough prefix            suffix
FOCUSES = [("lx-markup", "AMarkupSmall", 4, 4, "Empty", "Empty"),
           ("lx-markup-wide", "AMarkup", 3, 4, "Empty", "Empty"),
           ("lx-output", "AInside", 3, 4, "POutput", "Empty"),
           ("lx-output-closed", "AInside", 3, 4, "POutputClosed", "SOutputClosed"),
           ("lx-tag", "AInside", 3, 4, "PTag", "STag"),
           ("lx-liquid", "ALiquid", 4, 5, "PLiquid", "Empty"),
           ("lx-liquid-closed", "ALiquid", 3, 4, "PLiquidClosed", "SLiquidClosed"),
           ("lx-liquid-comment", "ALiquid", 3, 4, "PLiquidComment", "SLiquidComment"),
           ("lx-comment", "AComment", 4, 5, "PComment", "SComment"),
           ("lx-comment-open", "AComment", 4, 5, "PCommentOpen", "Empty"),
           ("lx-raw", "AComment", 3, 4, "PRaw", "SRaw"),
           ("lx-path", "APath", 4, 5, "POutputX", "SOutputClose"),
           ("lx-path-shorthand", "APath", 4, 5, "POutputX", "SOutputClose"),
           ("lx-path-open-end", "APath", 3, 4, "POutput", "Empty"),
           ("lx-path-tag", "APath", 3, 4, "PTag", "STag"),
           ("lx-path-open", "APath", 3, 4, "POutputPath", "Empty")]

# random long sources (tlc -simulate): markup kinds following one another in ways the short exhaustive sources cannot
#        focus            alphabet   symbols  walks(quick, thorough)  prefix   suffix
SIMS = [("lx-markup-sim", "AMarkup", 10, (4000, 40000), "Empty", "Empty"),
        ("lx-liquid-sim", "ALiquid", 9, (3000, 30000), "PLiquid", "Empty"),
        ("lx-comment-sim", "AComment", 9, (3000, 30000), "PComment", "SComment")]

_WC = {"DEFAULT": "", "MINUS": "-", "PLUS": "+", "TILDE": "~"}


def _q(s: str) -> str:
    return '"' + s.replace("\\", "\\\\").replace('"', '\\"').replace("\n", "\\n").replace("\r", "\\r") + '"'


def lib_tokens(env, src: str):
    """tokenize(src) projected onto what the machine exports."""
    def child(t):
        kind = type(t).__name__
        if kind == "Token":
            return {"k": t.type_.name, "a": int(t.start), "b": int(t.stop)}
        if kind == "TagToken":
            return {"k": kind, "a": int(t.start), "b": int(t.stop), "name": t.name,
                    "c": [child(e) for e in t.expression]}
        if kind in ("CommentToken", "BlockCommentToken", "InlineCommentToken"):
            return {"k": kind, "a": int(t.start), "b": int(t.stop)}
        return {"k": kind, "a": int(t.start), "b": int(t.stop)}      # paths etc.: outside the alphabet

    out = []
    for t in env.tokenize(src):
        kind = type(t).__name__
        d = {"k": kind, "a": int(t.start), "b": int(t.stop), "wc": [], "name": "", "c": []}
        if hasattr(t, "wc"):
            d["wc"] = [_WC[w.name] for w in t.wc]
        if kind == "TagToken":
            d["name"] = t.name
            d["c"] = [child(e) for e in t.expression]
        elif kind == "OutputToken":
            d["c"] = [child(e) for e in t.expression]
        elif kind == "LinesToken":
            d["name"] = t.name
            d["c"] = [child(e) for e in t.statements]
        out.append(d)
    return out


def judge(rec, opts):
    from liquid2 import Environment
    from liquid2.exceptions import LiquidSyntaxError
    key = "_env_sh" if rec.get("shorthand") else "_env"
    env = opts.get(key)
    if env is None:
        class Short(Environment):
            shorthand_indexes = True
        env = opts[key] = Short() if rec.get("shorthand") else Environment()
    src = rec["src"]
    try:
        got = lib_tokens(env, src)
    except LiquidSyntaxError:
        got = None
    except Exception as e:  # noqa: BLE001
        return [(f"lexer-raised:{type(e).__name__}:{rec['focus']}", {"src": src, "error": repr(e)})]
    focus = rec["focus"]
    if rec["outcome"] == "error":
        if got is not None:
            return [(f"lexer-accepts-what-the-machine-rejects:{focus}", {"src": src, "got": got})]
        return []
    if got is None:
        return [(f"lexer-rejects-what-the-machine-accepts:{focus}", {"src": src, "want": rec["toks"]})]
    want = rec["toks"]
    if got == want:
        # what the machine cannot see: the text of every top-level token is the source slice of its span
        for t in env.tokenize(src):
            txt = getattr(t, "text", None)
            if type(t).__name__ == "ContentToken" and txt != src[t.start:t.stop]:
                return [(f"lexer-content-text:{focus}", {"src": src, "text": txt, "span": [t.start, t.stop]})]
        return []
    if len(got) != len(want):
        return [(f"lexer-token-count:{focus}", {"src": src, "want": want, "got": got})]
    for g, w in zip(got, want):
        if g == w:
            continue
        for f in ("k", "a", "b", "wc", "name", "c"):
            if g[f] != w[f]:
                what = {"k": "kind", "a": "start", "b": "stop", "wc": "whitespace-control", "name": "name", "c": "children"}[f]
                return [(f"lexer-token-{what}:{w['k']}:{focus}", {"src": src, "want": w, "got": g})]
    return [(f"lexer-tokens:{focus}", {"src": src, "want": want, "got": got})]


# (OutputStep and TagStep are both instances of InsideStep: TLC reports them under that name)
ACTIONS = ["AddSymbol", "Begin", "LexEnd", "LexContent", "LexRaw", "LexComment", "LexOutputOpen", "LexTagOpen", "LexCommentTagOpen",
           "InsideStep", "LiquidStep", "LineStep", "BlockCommentStep", "LiquidCommentStep"]
# focuses that are run once more, with two symbols only, under -coverage 1 (coverage slows the big runs down threefold)
COVERED = ("lx-markup", "lx-output-closed", "lx-tag", "lx-liquid-closed", "lx-liquid-comment", "lx-comment", "lx-raw")


def run(chk: Check, tier: str, only: tuple[str, ...] | None = None, shrink: int = 0) -> None:
    """Run every focus of the lexer machine and replay its exports into the library."""
    from . import gen
    from .common import seed
    taken: dict[str, int] = {}
    for focus, alpha, n, walks, pre, suf in SIMS:
        if only and focus not in only:
            continue
        num = walks[1] if tier == "thorough" else walks[0]
        cfg = tlc.cfg_text(constants={"Alphabet": f"<- {alpha}", "MaxLen": str(n), "Prefix": f"<- {pre}", "Suffix": f"<- {suf}",
                                      "Focus": _q(focus), "Shorthand": "FALSE"}, invariants=INVARIANTS)
        r = tlc.run("LiquidLexer", cfg, tag=f"lexer-{focus}", simulate=f"num={num}", depth=n + 120, seed=seed(), timeout=3000)
        if r.error:
            chk.machinery_error = r.error
            r.cleanup()
            return
        if r.invariant_violated:
            chk.violation(f"lexer-machine:{r.invariant_violated}:{focus}", {"trace": r.trace[:60]})
            r.cleanup()
            continue
        chk.tlc(r, f"lexer machine {focus}: {num} random sources of <= {n} symbols of {alpha} (tlc -simulate, not exhaustive)")
        try:
            gen.replay_file(chk, r.workdir / "out.ndjson", "harness.lexer", "judge")
        finally:
            r.cleanup()
    for focus, alpha, q, t, pre, suf in FOCUSES:
        if only and focus not in only:
            continue
        n = max(1, (t if tier == "thorough" else q) - shrink)
        cfg = tlc.cfg_text(constants={"Alphabet": f"<- {alpha}", "MaxLen": str(n), "Prefix": f"<- {pre}", "Suffix": f"<- {suf}",
                                      "Focus": _q(focus), "Shorthand": "TRUE" if focus.endswith("shorthand") else "FALSE"},
                           invariants=INVARIANTS, properties=["Progress"])
        if focus in COVERED:
            small = tlc.cfg_text(constants={"Alphabet": f"<- {alpha}", "MaxLen": "2", "Prefix": f"<- {pre}", "Suffix": f"<- {suf}",
                                            "Focus": _q(focus), "Shorthand": "FALSE"}, invariants=INVARIANTS[:-1])
            rc = tlc.run("LiquidLexer", small, tag=f"lexer-cov-{focus}", timeout=600, coverage=True)
            for a, (cnt, _) in rc.coverage.items():
                if a.startswith("LiquidLexer!"):
                    taken[a.split("!", 1)[1]] = taken.get(a.split("!", 1)[1], 0) + cnt
            rc.cleanup()
        r = tlc.run("LiquidLexer", cfg, tag=f"lexer-{focus}", timeout=3000)
        if r.error:
            chk.machinery_error = r.error
            r.cleanup()
            return
        if r.invariant_violated:
            chk.violation(f"lexer-machine:{r.invariant_violated}:{focus}", {"trace": r.trace[:60]})
            r.cleanup()
            continue
        chk.tlc(r, f"lexer machine {focus}: alphabet {alpha}, <= {n} symbols between {pre} and {suf}; "
                   "PointersOK, PrefixTiling, Nested, FinalTiling, WcShape, Progress")
        try:
            gen.replay_file(chk, r.workdir / "out.ndjson", "harness.lexer", "judge")
        finally:
            r.cleanup()
    # vacuity guard: every action of the machine was taken in the focuses run with coverage
    if not only and not chk.machinery_error:
        never = [a for a in ACTIONS if not taken.get(a)]
        if never:
            chk.machinery_error = f"vacuity: actions of LiquidLexer never taken: {never}"
        chk.cov.setdefault("lexer_actions_taken", taken)
