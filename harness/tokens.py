"""C->S recording for Trace_Tokens.tla: what tokenize / parse / render do with a source text."""
from __future__ import annotations

import json

from .replay import _CONC, conc

_REV = {chr(w["cp"]): w["p"] for w in _CONC["wide"]}


def deconc(s: str) -> str | None:
    """Concrete text -> model alphabet; None if it cannot be represented (non-ASCII)."""
    out = []
    for ch in s:
        if ch in _REV:
            out.append(_REV[ch])
        elif ord(ch) < 128 and not (1 <= ord(ch) <= 7):
            out.append(ch)
        else:
            return None
    return "".join(out)


def tok_tree(t) -> dict:
    """One token (markup or expression level) as [k, a, b, v, hasv, c]."""
    kind = type(t).__name__
    a, b = int(t.start), int(t.stop)
    children = []
    v, hasv = "", False
    if kind in ("OutputToken", "TagToken"):
        children = [tok_tree(e) for e in (t.expression or [])]
    elif kind == "LinesToken":
        children = [tok_tree(e) for e in t.statements]
    elif kind == "PathToken":
        children = [tok_tree(p) for p in t.path if hasattr(p, "start")]
    elif kind == "TemplateStringToken":
        children = [tok_tree(p) for p in t.template]
    elif kind == "RangeToken":
        children = [tok_tree(t.range_start), tok_tree(t.range_stop)]
    elif kind == "Token":
        kind = t.type_.name
        dv = deconc(t.value)
        if dv is not None:
            v, hasv = dv, True
    elif kind == "ContentToken":
        dv = deconc(t.text)
        if dv is not None:
            v, hasv = dv, True
    return {"k": kind, "a": a, "b": b, "v": v, "hasv": hasv, "c": children}


def err_outcome(e, src=None) -> dict:
    from liquid2.exceptions import LiquidError

    from .replay import error_probe, raise_site
    if not isinstance(e, LiquidError):
        return {"kind": "nonliquid", "cls": type(e).__name__ + "@" + raise_site(e), "probe": "", "haspos": False, "pos": 0}
    probe = error_probe(e) or ""
    tok = getattr(e, "token", None)
    pos = getattr(tok, "start", None) if tok is not None else None
    haspos = isinstance(pos, int) and pos >= 0
    out = {"kind": "liquid", "cls": type(e).__name__, "probe": probe, "haspos": bool(haspos),
           "pos": int(pos) if haspos else 0, "hasctx": False, "line": 0, "col": 0, "cur": ""}
    # the line / column / line text the error reports for itself (for the source being recorded only)
    if haspos and not probe and src is not None and getattr(tok, "source", None) == src:
        try:
            ctx = e.context()
        except Exception:  # noqa: BLE001
            ctx = None
        if ctx is not None:
            cur = deconc(ctx[3])
            if cur is not None:
                out.update(hasctx=True, line=int(ctx[0]), col=int(ctx[1]), cur=cur)
    return out


def node_positions_ok(nodes, n: int, depth=0) -> bool:
    """Every syntax-tree node's token lies inside the source."""
    for node in nodes:
        t = getattr(node, "token", None)
        if t is not None and hasattr(t, "start"):
            if not (0 <= t.start <= t.stop <= n):
                return False
    return True


def record(model_src: str, rid: str, env, data: dict | None = None) -> dict:
    src = conc(model_src)
    rec = {"id": rid, "src": model_src}
    ok = {"kind": "ok", "cls": "", "probe": "", "haspos": False, "pos": 0}
    try:
        toks = env.tokenize(src)
        rec["tok"] = dict(ok, tokens=[tok_tree(t) for t in toks])
    except BaseException as e:  # noqa: BLE001
        rec["tok"] = dict(err_outcome(e, src), tokens=[])
    rec["nodes_in_source"] = True
    tmpl = None
    try:
        tmpl = env.from_string(src)
        rec["parse"] = ok
        rec["nodes_in_source"] = node_positions_ok(tmpl.nodes, len(src))
    except BaseException as e:  # noqa: BLE001
        rec["parse"] = err_outcome(e, src)
    rec["render"] = ok
    if tmpl is not None:
        try:
            tmpl.render(**(data or {}))
        except BaseException as e:  # noqa: BLE001
            rec["render"] = err_outcome(e, src)
    return rec


def dumps(rec: dict) -> str:
    return json.dumps(rec, ensure_ascii=True)
