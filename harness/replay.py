"""S->C: replay behaviours exported by TLC (LiquidGen!Export) into the real library.

The Python side invents nothing: template text, data, configuration and the expected
result all come from the record; this module concretises placeholders (table in
spec/concrete.json), builds the Environment, renders, and compares field by field.
Every replay also checks, for the properties that ride along on every behaviour:
  C02  only LiquidError subclasses escape; str()/detailed_message()/context() never raise
  C10  caller data is deep-equal before and after the render
  C03  render_async gives the same outcome as render (when asked)
"""
from __future__ import annotations

import asyncio
import copy
import json
from pathlib import Path

from .common import VERIF

_CONC = json.loads((VERIF / "spec" / "concrete.json").read_text())
_TABLE = {ord(w["p"]): chr(w["cp"]) for w in _CONC["wide"]}


def conc(s: str) -> str:
    return s.translate(_TABLE)


class OrdinalDrop:
    """Every item access returns the number of accesses so far ("odd": whether it is odd)."""

    def __init__(self):
        self.n = 0

    def _get(self, key):
        self.n += 1
        if key == "odd":
            return self.n % 2 == 1
        if key == "n":
            return self.n
        raise KeyError(key)

    def __getitem__(self, key):
        return self._get(key)

    async def __getitem_async__(self, key):
        return self._get(key)

    def __eq__(self, other):
        return isinstance(other, OrdinalDrop)

    def __deepcopy__(self, memo):
        return OrdinalDrop()


def to_py(v):
    """Tagged model value -> Python value."""
    t = v["t"]
    if t == "nil":
        return None
    if t == "bool":
        return bool(v["b"])
    if t == "int":
        return int(v["n"])
    if t == "str":
        s = conc(v["v"])
        if v.get("safe"):
            from markupsafe import Markup
            return Markup(s)
        return s
    if t == "arr":
        return [to_py(x) for x in v["v"]]
    if t == "hash":
        return {conc(k): to_py(x) for k, x in v["h"]}
    if t == "range":
        return range(v["a"], v["b"] + 1)
    if t == "odrop":
        return OrdinalDrop()
    if t == "float":
        return float(v["f"])
    if t == "big":
        if v["d"].lstrip("-") == "HUGE":       # beyond sys.get_int_max_str_digits()
            return (-1 if v["d"].startswith("-") else 1) * 10 ** 5000
        return int(v["d"])
    if t == "dec":
        from decimal import Decimal
        return float(Decimal(int(v["dm"])).scaleb(-int(v["de"])))
    if t == "opaque":
        from .drops import CallableObj, PlainObj
        return CallableObj(v["s"]) if v["s"] == "CB" else PlainObj(v["s"])
    raise ValueError(f"cannot concretise {v!r}")


def layer(pairs) -> dict:
    return {conc(k): to_py(v) for k, v in pairs}


_ENV_CLASSES: dict = {}


def _env_class(trim: str, suppress: bool, shorthand: bool, limits: tuple, shopify: bool = False):
    """Environment subclass for a configuration; module-level (so that templates pickle)."""
    key = (suppress, shorthand, limits, shopify)
    if key in _ENV_CLASSES:
        return _ENV_CLASSES[key]
    if shopify:
        from liquid2.shopify import Environment
    else:
        from liquid2 import Environment
    out, loop, depth, ns = limits
    attrs = {"suppress_blank_control_flow_blocks": suppress, "shorthand_indexes": shorthand}
    if out is not None:
        attrs["output_stream_limit"] = out
    if loop is not None:
        attrs["loop_iteration_limit"] = loop
    if depth is not None:
        attrs["context_depth_limit"] = depth
    if ns is not None:
        attrs["local_namespace_limit"] = ns
    name = "Env_" + "_".join(str(x) for x in (int(suppress), int(shorthand), *limits, int(shopify))).replace("-", "m").replace("None", "n")
    attrs["__module__"] = __name__
    attrs["__qualname__"] = name
    cls = type(name, (Environment,), attrs)
    globals()[name] = cls
    _ENV_CLASSES[key] = cls
    return cls


# A loop-iteration limit for renders whose record sets none: the checks that compare a render with another render of
# the same library (C10 immutability, C12 round trips) or record its events (C07) use it so that a range of a million
# items in the type-confused data ends in LoopIterationLimitError instead of taking minutes.  C02 (time bounds) and the
# checks that compare with the model leave it off.
LOOP_CAP: int | None = None


def make_env(cfg: dict, *, loader=None, env_globals=None):
    from liquid2 import FalsyStrictUndefined, StrictUndefined, Undefined, WhitespaceControl

    wc = {"+": WhitespaceControl.PLUS, "-": WhitespaceControl.MINUS, "~": WhitespaceControl.TILDE}
    und = {"default": Undefined, "strict": StrictUndefined, "falsy": FalsyStrictUndefined}
    lim = cfg.get("limits") or {}
    limits = tuple(None if lim.get(k) in (None, -1) else lim.get(k) for k in ("out", "loop", "depth", "ns"))
    if LOOP_CAP is not None and limits[1] is None:
        limits = (limits[0], LOOP_CAP, limits[2], limits[3])
    cls = _env_class(cfg.get("trim", "+"), bool(cfg.get("suppress", True)), bool(cfg.get("shorthand", False)), limits,
                     bool(cfg.get("shopify", False)))
    return cls(loader=loader, globals=env_globals or None, auto_escape=bool(cfg.get("autoescape", False)),
               undefined=und[cfg.get("undef", "default")], default_trim=wc[cfg.get("trim", "+")])


def error_probe(exc) -> str | None:
    """C02: every error can be turned into message and location without raising."""
    for what in ("str", "detailed_message", "context"):
        try:
            if what == "str":
                str(exc)
            elif hasattr(exc, what):
                getattr(exc, what)()
        except BaseException as e2:  # noqa: BLE001
            return f"{what}() raised {type(e2).__name__}"
    return None


def raise_site(exc) -> str:
    """file:function of the innermost liquid2 frame an exception passed through."""
    import traceback
    site = "?"
    for fr in traceback.extract_tb(exc.__traceback__):
        fn = fr.filename.replace("\\", "/")
        if "/liquid2/" in fn:
            site = fn.split("/liquid2/", 1)[1] + ":" + fr.name
    return site


def outcome(fn) -> dict:
    from liquid2.exceptions import LiquidError

    try:
        return {"ok": True, "out": fn()}
    except LiquidError as e:
        return {"ok": False, "err": type(e).__name__, "mro": [c.__name__ for c in type(e).__mro__],
                "probe": error_probe(e), "msg": str(e)[:200] if not error_probe(e) else ""}
    except RecursionError:
        return {"ok": False, "err": "RecursionError", "mro": [], "nonliquid": True, "msg": "", "site": "?"}
    except Exception as e:  # noqa: BLE001
        return {"ok": False, "err": type(e).__name__, "mro": [], "nonliquid": True, "msg": str(e)[:200],
                "site": raise_site(e)}


_CLOCK = False


def install_clock() -> None:
    """Replace the clock the built-in `now` / `today` objects read by a fixed one whose
    values print as @now@ / @today@ (what the model writes for them)."""
    global _CLOCK
    if _CLOCK:
        return
    import liquid2.context as lc

    class _Stamp:
        def __init__(self, s):
            self.s = s

        def __str__(self):
            return self.s

    class _FakeDateTimeModule:
        class datetime:  # noqa: N801
            @staticmethod
            def now():
                return _Stamp("@now@")

        class date:  # noqa: N801
            @staticmethod
            def today():
                return _Stamp("@today@")

    lc.datetime = _FakeDateTimeModule
    _CLOCK = True


def render_record(rec: dict, *, mode: str = "sync") -> tuple[dict, dict]:
    """Render a record; returns (outcome, extras)."""
    from liquid2 import DictLoader

    install_clock()

    cfg = rec["cfg"]
    templates = {conc(n): conc(t) for n, t in rec["templates"]}
    layers = [layer(x) for x in rec["data"]]
    while len(layers) < 4:
        layers.append({})
    args, matter, tglobals, eglobals = layers[:4]
    before = copy.deepcopy(layers)
    main = conc(rec["main"])
    # the loader holds every template, main included (a chain may lead back to it)
    env = make_env(cfg, loader=DictLoader(dict(templates)), env_globals=eglobals)

    def run():
        t = env.from_string(templates[main], name=main, globals=tglobals or None,
                            overlay_data=matter or None)
        if mode == "async":
            async def coro():
                return await t.render_async(**args)
            return asyncio.run(coro())
        return t.render(**args)

    got = outcome(run)
    extras = {"data_unchanged": before == layers}
    return got, extras


def compare(rec: dict, got: dict) -> dict | None:
    """Field-by-field comparison of an observed outcome with TLC's expectation."""
    exp = rec["expect"]
    if got.get("nonliquid"):
        return {"clause": "non-liquid-exception", "expected": exp, "got": got}
    if not got["ok"] and got.get("probe"):
        return {"clause": "error-probe", "expected": exp, "got": got}
    if exp["ok"] != got["ok"]:
        return {"clause": "outcome", "expected": exp, "got": got}
    if exp["ok"]:
        if conc(exp["out"]) != got["out"]:
            return {"clause": "output", "expected": conc(exp["out"]), "got": got["out"]}
    elif exp["err"] not in got["mro"]:
        return {"clause": "error-class", "expected": exp["err"], "got": got}
    return None
