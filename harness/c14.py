"""C14 - caching loaders are transparent.

TLC checks the properties of spec/LiquidCache.tla for every (auto_reload, freshness,
capacity) configuration, exports every complete history of the bounded model (and random
longer ones from -simulate) and this module replays each history, operation by
operation, into the real caching loaders, comparing what the caller observes (rendered
text or error class), len(loader.cache) and whether the wrapped loader was asked again
with what TLC computed.
"""
from __future__ import annotations

import asyncio
import json
import os
import shutil
import sys
from concurrent.futures import ProcessPoolExecutor
from pathlib import Path

from . import tlc
from .common import SCRATCH, Check, chunks, seed, workers

INVS = ["TypeOK", "CapacityInv", "OrderIsRecency", "NoGlobalsCarryOver", "NoCrossNamespace",
        "TransparentFresh", "TransparentStale", "HandlesStable"]
PROPS = ["LRUOrder", "HitOnlyIfCached", "FailureStoresNothing"]


def constants(**kw) -> dict[str, str]:
    c = {"Names": '{"a","b"}', "Spaces": '{"n1","n2"}', "Globs": '{"g0","g1"}',
         "Capacity": "2", "AutoReload": "TRUE", "Fresh": "TRUE", "MaxVer": "2",
         "MaxOps": "3", "Tasks": "{1,2}", "Modes": '{"sync","async"}',
         "Record": "FALSE", "Dev": "{}"}
    c.update({k: str(v) for k, v in kw.items()})
    return c


# --------------------------------------------------------------------------- doubles
class InnerFault(Exception):
    """Raised by the inner loader double when the model says the next load fails."""


class Pause:
    """An awaitable that suspends the coroutine exactly once (hand-stepped scheduler)."""

    def __await__(self):
        yield self


class Store:
    def __init__(self, keys):
        self.ver = {k: 1 for k in keys}
        self.fault = False
        self.calls: list[tuple] = []


def source_text(sp: str, nm: str, ver: int) -> str:
    return f"{sp}/{nm}@{ver}|{{{{ g }}}}|{{{{ eg }}}}"


# the model's globals are distinct abstract values; the "alike" concretisation hands the loader Python values that
# are equal to `==` (1 == True == 1.0) yet are different Liquid values - what one caller passed is not what another did
ALIKE = {"g1": (1, "1"), "g2": (True, "true"), "g3": (1.0, "1.0")}


def expected_text(o: dict, env_globals=True) -> str:
    # `eg` is an environment global: every render sees it, whatever the cache did
    sp, nm = o["key"]
    g = "" if o["glob"] == "g0" else (ALIKE[o["glob"]][1] if env_globals == "alike" else o["glob"])
    return f"{sp}/{nm}@{o['ver']}|" + g + ("|E" if env_globals else "|")


def make_inner(store: Store, fresh: bool):
    from liquid2.exceptions import TemplateNotFoundError
    from liquid2.loader import BaseLoader, TemplateSource

    class Inner(BaseLoader):
        def _ns(self, context, kwargs):
            ns = kwargs.get("ns")
            if ns is None and context is not None:
                ns = context.globals.get("ns")
            return ns

        def _read(self, name, ns):
            store.calls.append((ns, name))
            if store.fault:
                store.fault = False
                raise InnerFault(name)
            v = store.ver.get((ns, name), 0)
            if not v:
                raise TemplateNotFoundError(name)
            return v

        def get_source(self, env, template_name, *, context=None, **kwargs):
            ns = self._ns(context, kwargs)
            v = self._read(template_name, ns)
            up = (lambda: store.ver.get((ns, template_name), 0) == v) if fresh else None
            return TemplateSource(source_text(ns, template_name, v), f"{ns}/{template_name}", up)

        async def get_source_async(self, env, template_name, *, context=None, **kwargs):
            ns = self._ns(context, kwargs)
            await Pause()
            v = self._read(template_name, ns)

            async def up_async():
                await Pause()
                return store.ver.get((ns, template_name), 0) == v

            return TemplateSource(source_text(ns, template_name, v), f"{ns}/{template_name}",
                                  up_async if fresh else None)

    return Inner


def build_loader(variant: str, store: Store, cfg: dict, root: Path | None):
    from liquid2 import CachingChoiceLoader, CachingDictLoader, CachingFileSystemLoader
    from liquid2.builtin.loaders.mixins import CachingLoaderMixin

    cap, ar = cfg["capacity"], cfg["auto_reload"]
    if variant in ("mixin", "mixints"):
        Inner = make_inner(store, cfg["fresh"])

        class Caching(CachingLoaderMixin, Inner):
            def __init__(self):
                # mixints: the lock-protected cache (thread_safe=True), same histories
                CachingLoaderMixin.__init__(self, auto_reload=ar, namespace_key="ns", capacity=cap,
                                            thread_safe=variant == "mixints")
                Inner.__init__(self)

        return Caching()
    if variant == "choice":
        Inner = make_inner(store, cfg["fresh"])
        return CachingChoiceLoader([Inner()], auto_reload=ar, namespace_key="ns", capacity=cap)
    if variant == "dict":
        templates = {nm: source_text(sp, nm, v) for (sp, nm), v in store.ver.items()}
        store.templates = templates
        return CachingDictLoader(templates, auto_reload=ar, namespace_key="ns", capacity=cap)
    if variant in ("fs", "fsl", "fsb"):
        assert root is not None
        for (sp, nm), v in store.ver.items():
            write_file(root, sp, nm, v, variant == "fsl", variant == "fsb")
        if variant == "fsl":
            # a search path of several directories: a modification is a new file in a directory searched earlier
            return CachingFileSystemLoader([root / f"p{i}" for i in range(LAYERS, 0, -1)], auto_reload=ar, capacity=cap)
        return CachingFileSystemLoader(root, auto_reload=ar, capacity=cap)
    raise ValueError(variant)


LAYERS = 9


def write_file(root: Path, sp: str, nm: str, v: int, layered: bool = False, backdated: bool = False) -> None:
    p = root / nm
    if layered:
        for i in range(1, LAYERS + 1):
            (root / f"p{i}").mkdir(exist_ok=True)
        p = root / f"p{min(v, LAYERS)}" / nm
    p.write_text(source_text(sp, nm, v))
    # backdated: every modification leaves the file with an older time stamp (a restore from a backup)
    stamp = 1_000_000 - v if backdated else 1_000_000 + v
    os.utime(p, (stamp, stamp))


# --------------------------------------------------------------------------- replay
def observe(fn):
    from liquid2.exceptions import TemplateNotFoundError
    try:
        return {"kind": "ok", "text": fn()}
    except TemplateNotFoundError:
        return {"kind": "notfound"}
    except InnerFault:
        return {"kind": "fault"}
    except BaseException as e:  # noqa: BLE001
        return {"kind": "exc:" + type(e).__name__, "msg": str(e)[:200]}


def replay(hist: list[dict], variant: str, cfg: dict, scratch: Path, env_globals: bool = True) -> dict | None:
    """Replay one history; return None if it conforms, else a description.  With env_globals the
    Environment has globals of its own (then a caller who passes none still hands the loader a
    non-empty mapping); without, "no globals" reaches the loader as None."""
    from liquid2 import Environment

    keys = [(sp, nm) for sp in cfg["spaces"] for nm in cfg["names"]]
    store = Store(keys)
    root = None
    if variant in ("fs", "fsl", "fsb"):
        root = scratch / f"fs-{os.getpid()}"
        shutil.rmtree(root, ignore_errors=True)
        root.mkdir(parents=True)
    loader = build_loader(variant, store, cfg, root)
    env = Environment(loader=loader, globals={"eg": "E"} if env_globals else None)
    coros: dict[int, object] = {}
    held: list = []
    atomic_async = variant in ("dict", "fs", "fsl", "fsb")
    done_async: dict[int, dict] = {}

    def globs(g):
        if g == "g0":
            return None
        return {"g": ALIKE[g][0]} if env_globals == "alike" else {"g": g}

    def step_coro(t):
        """Advance task t to its next await point; observation if it completed."""
        co = coros[t]
        try:
            co.send(None)
            return None
        except StopIteration as stop:
            del coros[t]
            return {"kind": "ok", "text": stop.value}
        except BaseException as e:  # noqa: BLE001
            del coros[t]
            return observe(lambda: (_ for _ in ()).throw(e))

    try:
        for i, st in enumerate(hist):
            op, exp = st["op"], st["obs"]
            ncalls = len(store.calls)
            got = None
            if op["op"] == "load":
                sp, nm, g = op["sp"], op["nm"], op["glob"]
                kw = {"ns": sp} if variant in ("mixin", "mixints", "choice", "dict") else {}
                if op["mode"] == "sync":
                    def load_and_render():
                        t = env.get_template(nm, globals=globs(g), **kw)
                        text = t.render()
                        held.append((i, t, text))          # the caller keeps the Template it was handed
                        del held[:-2]
                        return text
                    got = observe(load_and_render)
                else:
                    async def task(nm=nm, g=g, kw=kw):
                        t = await env.get_template_async(nm, globals=globs(g), **kw)
                        return await t.render_async()
                    if atomic_async:
                        res = observe(lambda: asyncio.run(task()))
                        # the model splits the load at await points the real loader
                        # does not have; the result belongs to the task's last step
                        if exp["kind"] == "none":
                            done_async[op["task"]] = res
                        else:
                            got = res
                    else:
                        coros[op["task"]] = task()
                        got = step_coro(op["task"])
            elif op["op"] == "resume":
                if atomic_async:
                    if exp["kind"] != "none":
                        got = done_async.pop(op["task"])
                else:
                    got = step_coro(op["task"])
            elif op["op"] == "modify":
                k = (op["sp"], op["nm"])
                store.ver[k] += 1
                if variant in ("fs", "fsl", "fsb"):
                    write_file(root, k[0], k[1], store.ver[k], variant == "fsl", variant == "fsb")
                elif variant == "dict":
                    store.templates[k[1]] = source_text(k[0], k[1], store.ver[k])
            elif op["op"] == "delete":
                k = (op["sp"], op["nm"])
                store.ver[k] = 0
                if variant in ("fs", "fsb"):
                    (root / k[1]).unlink()
                elif variant == "fsl":
                    for i in range(1, LAYERS + 1):
                        (root / f"p{i}" / k[1]).unlink(missing_ok=True)
                elif variant == "dict":
                    del store.templates[k[1]]
            elif op["op"] == "fault":
                store.fault = True
            # ---- compare with what TLC computed
            size = len(loader.cache)
            if exp["kind"] == "none":
                if got is not None:
                    return {"at": i, "clause": "completed-early", "expected": exp, "got": got}
                continue
            if got is None:
                return {"at": i, "clause": "not-completed", "expected": exp, "got": None}
            if got["kind"] != exp["kind"]:
                return {"at": i, "clause": "outcome", "expected": exp, "got": got}
            if exp["kind"] == "ok" and got["text"] != expected_text(exp, env_globals):
                return {"at": i, "clause": "text", "expected": expected_text(exp, env_globals), "got": got,
                        "obs": exp}
            if size != exp["size"] and not (atomic_async and op["op"] == "resume"):
                return {"at": i, "clause": "cache-size", "expected": exp["size"], "got": size}
            if size > cfg["capacity"]:
                return {"at": i, "clause": "capacity", "expected": cfg["capacity"], "got": size}
            if variant in ("mixin", "mixints", "choice"):
                inner = len(store.calls) > ncalls
                if inner != exp["inner"]:
                    return {"at": i, "clause": "inner-call", "expected": exp["inner"], "got": inner}
            # HandlesStable: a Template a caller still holds renders what it was loaded as
            for at, t, text in held:
                again = observe(t.render)
                if again.get("text") != text:
                    return {"at": i, "clause": "held-template", "expected": text, "got": again, "loaded_at": at}
        return None
    finally:
        for co in coros.values():
            co.close()
        if root is not None:
            shutil.rmtree(root, ignore_errors=True)


def classify(hist, fail) -> str:
    """Name the specific thing that fails (used to match known findings)."""
    st = hist[fail["at"]]
    op, exp = st["op"], st["obs"]
    bits = [fail["clause"]]
    if fail["clause"] == "text" and isinstance(fail.get("got"), dict):
        want, got = fail["expected"], fail["got"].get("text", "")
        if want.split("|")[0] == got.split("|")[0]:
            bits.append("globals-differ")
            if exp.get("req") == "g0":
                bits.append("caller-passed-none")
        else:
            bits.append("source-differs")
    if fail["clause"] == "outcome":
        bits.append(f"{exp['kind']}->{fail['got']['kind']}")
    mode = op.get("mode") or next((h["op"].get("mode") for h in reversed(hist[:fail["at"]])
                                  if h["op"].get("op") == "load" and h["op"].get("task") == op.get("task")), "?")
    bits.append(mode)
    return ":".join(bits)


def _replay_chunk(args):
    hists, variant, cfg, scratch = args
    out = []
    for h in hists:
        # with and without globals on the Environment itself (the in-memory variants: cheap)
        for eg in ((True, False, "alike") if variant in ("mixin", "dict") else (True,)):
            try:
                f = replay(h, variant, cfg, Path(scratch), eg)
            except BaseException as e:  # noqa: BLE001
                f = {"at": 0, "clause": "harness-exception", "expected": None,
                     "got": {"kind": "exc:" + type(e).__name__, "msg": str(e)[:300]}}
            if f:
                f["env_globals"] = eg
                out.append((h, f))
                break
    return out


def atomic_only(hist) -> bool:
    """Histories in which every async load runs to completion without interleaving."""
    open_task = None
    for st in hist:
        op = st["op"]
        if open_task is not None:
            if op["op"] != "resume" or op["task"] != open_task:
                return False
            if st["obs"]["kind"] != "none":
                open_task = None
        elif op["op"] == "load" and op["mode"] == "async" and st["obs"]["kind"] == "none":
            open_task = op["task"]
        elif op["op"] == "resume":
            return False
    return open_task is None


def run_config(chk: Check, label: str, consts: dict, variants: list[str], *, simulate=None,
               depth=None, flt=None, timeout=1800):
    cfg = {
        "capacity": int(consts["Capacity"]), "auto_reload": consts["AutoReload"] == "TRUE",
        "fresh": consts["Fresh"] == "TRUE",
        "names": [x.strip('" ') for x in consts["Names"].strip("{}").split(",")],
        "spaces": [x.strip('" ') for x in consts["Spaces"].strip("{}").split(",")],
    }
    rc = dict(consts, Record="TRUE")
    text = tlc.cfg_text(constants=rc, invariants=INVS + ["Export"], properties=PROPS if not simulate else None)
    r = tlc.run("MC_Cache", text, tag=f"cachegen-{label}", simulate=simulate, depth=depth,
                seed=seed() if simulate else None, timeout=timeout)
    try:
        if r.error:
            chk.machinery_error = r.error
            return
        if r.invariant_violated or r.deadlock:
            chk.spec_violation(r, label)
            return
        chk.tlc(r, f"history export {label}", constants=rc)
        # the histories stay on disk: every worker streams its own byte range of the file TLC wrote
        from .gen import _split
        path = r.workdir / "out.ndjson"
        SCRATCH.mkdir(parents=True, exist_ok=True)
        for variant in variants:
            parts = _split(path, workers() * 4)
            jobs = [(str(path), a, b, variant, cfg, str(SCRATCH), flt.__name__ if flt else None) for a, b in parts]
            total = 0
            with ProcessPoolExecutor(workers()) as ex:
                for n, fails, sample in ex.map(_stream_chunk, jobs):
                    total += n
                    for h, f in fails:
                        sig = f"{variant}:{classify(h, f)}"
                        chk.violation(sig, {"variant": variant, "cfg": cfg, "history": h, "failure": f})
                    if sample is not None and len(chk.cov["samples"]) < 8:
                        chk.cov["samples"].append({"config": label, "variant": variant, "history": sample})
            chk.validated(total)
            chk.add_distinct(total)
            chk.cov["evaluations"] += total
    finally:
        r.cleanup()


def _stream_chunk(args):
    path, start, end, variant, cfg, scratch, flt_name = args
    flt = globals()[flt_name] if flt_name else None
    fails, n, sample = [], 0, None
    with open(path, "rb") as fd:
        fd.seek(start)
        while fd.tell() < end:
            line = fd.readline()
            if not line.strip():
                continue
            h = json.loads(line)["ops"]
            if flt is not None and not flt(h, variant):
                continue
            n += 1
            if sample is None:
                sample = h
            if len(fails) < 50:
                fails.extend(_replay_chunk(([h], variant, cfg, scratch)))
    return n, fails, sample


def real_loader_filter(h, variant):
    if variant in ("mixin", "mixints", "choice"):
        return True
    if any(st["op"]["op"] == "fault" for st in h):
        return False
    return atomic_only(h)


def check(tier: str) -> int:
    chk = Check("C14", tier)
    chk.assumptions += [
        "TLC 1.8 (tla2tools.jar) and the CommunityModules Json/IOUtils modules",
        "the inner-loader double defines where an async load reads the source (after its await)",
        "bounded: names/namespaces/globals/versions/operations as listed per TLC run",
    ]
    thorough = tier == "thorough"
    TT, FT, TF = ("TRUE", "TRUE"), ("FALSE", "TRUE"), ("TRUE", "FALSE")
    # 1. properties of the design, without history variables (deeper bound)
    if thorough:
        inv_runs = [(ar, fr, cap, 5 if cap < 3 else 4) for ar, fr in (TT, FT, TF) for cap in (1, 2, 3)]
    else:
        inv_runs = [(*TT, 2, 4), (*FT, 1, 3), (*TF, 2, 3)]
    for ar, fr, cap, nops in inv_runs:
        c = constants(AutoReload=ar, Fresh=fr, Capacity=cap, MaxOps=nops)
        r = tlc.run("MC_Cache", tlc.cfg_text(constants=c, invariants=INVS, properties=PROPS),
                    tag=f"cache-inv-{ar}-{fr}-{cap}", coverage=True, timeout=3000)
        try:
            if r.error:
                chk.machinery_error = r.error
            elif r.invariant_violated or r.deadlock:
                chk.spec_violation(r, f"auto_reload={ar} fresh={fr} capacity={cap}")
            else:
                chk.tlc(r, "invariants+action properties", constants=c)
                never = [a for a, (n, _) in r.coverage.items() if n == 0
                         and not (a.endswith("DoAsyncUptodate") and (ar, fr) != TT)]
                if never:
                    chk.machinery_error = f"vacuity: actions never taken {never}"
        finally:
            r.cleanup()
    # non-vacuity: TLC refutes HandlesStable when the object handed out is the cache entry itself (as found)
    c = constants(MaxOps=3, Dev='{"RebindShared"}')
    r = tlc.run("MC_Cache", tlc.cfg_text(constants=c, invariants=["HandlesStable"]), tag="cache-dev", timeout=1200)
    try:
        if r.error:
            chk.machinery_error = r.error
        elif not r.invariant_violated:
            chk.machinery_error = "vacuity: HandlesStable holds even with the deviation RebindShared"
    finally:
        r.cleanup()
    # liveness: every suspended load completes (finite model, no state constraint)
    c = constants(MaxOps=3 if thorough else 2)
    r = tlc.run("MC_Cache", tlc.cfg_text(constants=c, specification="Spec", properties=["Terminates"]),
                tag="cache-live", timeout=1800)
    try:
        if r.error:
            chk.machinery_error = r.error
        elif r.invariant_violated or r.deadlock:
            chk.spec_violation(r, "liveness")
        else:
            chk.tlc(r, "liveness Terminates under WF", constants=c)
    finally:
        r.cleanup()

    # 2./3. export histories and replay them into the real loaders
    two = dict(Names='{"a","b"}', Spaces='{"n1","n2"}')
    one = dict(Names='{"a","b","c"}', Spaces='{"n1"}', Tasks="{1}")
    if thorough:
        dbl = [(ar, fr, cap, 4, ["mixin", "choice", "mixints"]) for ar, fr in (TT, FT, TF) for cap in (1, 2)]
        real = [(ar, cap, 4) for ar in ("TRUE", "FALSE") for cap in (1, 2)]
        sims = [(*TT, 2), (*FT, 2), (*TF, 3), (*TT, 3)]
        num, simops = 3000, 25
    else:
        dbl = [(*TT, 2, 3, ["mixin", "choice"]), (*FT, 1, 3, ["mixin"]), (*TF, 2, 3, ["mixin", "mixints"])]
        real = [("TRUE", 2, 3), ("FALSE", 1, 3)]
        sims = [(*TT, 2), (*TF, 3)]
        num, simops = 300, 12
    for ar, fr, cap, n, variants in dbl:
        run_config(chk, f"dbl-ar{ar[0]}-fr{fr[0]}-cap{cap}",
                   constants(AutoReload=ar, Fresh=fr, Capacity=cap, MaxOps=n, **two), variants)
    for ar, cap, n in real:
        run_config(chk, f"fs-ar{ar[0]}-cap{cap}",
                   constants(AutoReload=ar, Fresh="TRUE", Capacity=cap, MaxOps=n, **one),
                   ["fs", "fsl", "fsb"], flt=real_loader_filter)
        run_config(chk, f"dict-ar{ar[0]}-cap{cap}",
                   constants(AutoReload=ar, Fresh="FALSE", Capacity=cap, MaxOps=n, **one),
                   ["dict"], flt=real_loader_filter)
    # globals that are equal to `==` and different to a template (the "alike" concretisation needs two non-empty ones)
    for fr, variants in (("TRUE", ["mixin"]), ("FALSE", ["dict"])):
        run_config(chk, f"alike-fr{fr[0]}", constants(AutoReload="TRUE", Fresh=fr, Capacity=2, MaxOps=3, Names='{"a"}', Spaces='{"n1"}',
                                                     Globs='{"g0","g1","g2"}'), variants, flt=real_loader_filter)
    # random long histories
    for ar, fr, cap in sims:
        run_config(chk, f"sim-ar{ar[0]}-fr{fr[0]}-cap{cap}",
                   constants(AutoReload=ar, Fresh=fr, Capacity=cap, MaxOps=simops, MaxVer=4,
                             Names='{"a","b","c"}', Spaces='{"n1","n2"}'),
                   ["mixin", "choice", "mixints"], simulate=f"num={num}", depth=120)
    chk.cov["explanation"] = ("exhaustive for the listed constants (all histories of MaxOps operations); "
                              "the sim-* runs are random walks (tlc -simulate), not exhaustive")
    return chk.finish()


def replay_file(path: str) -> int:
    import json
    d = json.load(open(path))
    rec = d["record"]
    if rec.get("kind") == "spec":
        print("\n".join(rec["trace"]))
        return 1
    SCRATCH.mkdir(parents=True, exist_ok=True)
    f = replay(rec["history"], rec["variant"], rec["cfg"], SCRATCH, rec.get("failure", {}).get("env_globals", True))
    for i, st in enumerate(rec["history"]):
        print(i, st["op"], "=>", st["obs"])
    if f:
        print("FAILS:", f)
        print(f"VIOLATION property=C14 replay={path}")
        return 1
    print("conforms")
    return 0
