"""C07 - render/macro scopes are isolated and block scopes do not leak.

TLC checks RenderIsolated (non-interference of a top-level `render` with the rest of the
program, both directions) on the reference semantics for every program of the scopes focus,
and exports every behaviour; the library must produce the model's text (isolation failures
show as different text because every name of the shared pool is printed inside and after
each construct), and a caller-owned RenderContext must have the same scope depth, loop
stack and current template after render_with_context returns or raises.
"""
from __future__ import annotations

from io import StringIO

from . import gen, replay
from .c01 import constructs
from .common import Check


def judge(rec, opts):
    out = []
    got, _ = replay.render_record(rec)
    f = replay.compare(rec, got)
    if f is not None and f["clause"] in ("output", "outcome", "error-class"):
        out.append((f"{rec['focus']}:{f['clause']}:{constructs(rec)}", f))
    # scope-stack discipline on a caller-owned context
    from liquid2 import DictLoader, RenderContext
    templates = {replay.conc(n): replay.conc(t) for n, t in rec["templates"]}
    layers = [replay.layer(x) for x in rec["data"]]
    main = replay.conc(rec["main"])
    env = replay.make_env(rec["cfg"], loader=DictLoader({k: v for k, v in templates.items() if k != main}))
    try:
        t = env.from_string(templates[main], name=main)
    except Exception:  # noqa: BLE001
        return out
    ctx = RenderContext(t, global_data=t.make_globals(layers[0]))
    before = (ctx.scope.size(), len(ctx.loops), ctx.template is t, dict(ctx.tag_namespace["macros"]) == {})
    raised = None
    try:
        t.render_with_context(ctx, StringIO())
    except Exception as e:  # noqa: BLE001
        raised = type(e).__name__
    after = (ctx.scope.size(), len(ctx.loops), ctx.template is t)
    if after != before[:3]:
        out.append((f"scope-stack:{'raise' if raised else 'return'}:{constructs(rec)}",
                    {"before": before, "after": after, "raised": raised}))
    return out


def _record_traces(args):
    """Worker: render the records of one ndjson byte range with the scope recorder on; return trace lines."""
    import json
    import os

    from liquid2 import DictLoader

    from . import replay, scopetrace
    path, start, end, base, tier = args
    out = []
    with open(path, "rb") as fd:
        fd.seek(start)
        n = 0
        while fd.tell() < end:
            line = fd.readline()
            if not line.strip():
                continue
            rec = json.loads(line)
            n += 1
            templates = {replay.conc(k): replay.conc(v) for k, v in rec["templates"]}
            env = replay.make_env(rec["cfg"], loader=DictLoader(dict(templates)))
            # (the recorded execution is one of the real code under a loop limit: a range of a million items is cut
            # short by LoopIterationLimitError - an exit through an error, which the clauses cover - instead of taking minutes)
            if getattr(env, "loop_iteration_limit", None) is None:
                env.loop_iteration_limit = 5000
            try:
                t = env.from_string(templates[replay.conc(rec["main"])], name="main")
            except Exception:  # noqa: BLE001
                continue
            data = replay.layer(rec["data"][0])
            # (both twins for the focuses about scopes; the others exercise unwinding, which the twins share)
            for mode in (("sync", "async") if base in ("scopes", "lambda") or tier == "thorough" else ("sync",)):
                ev, raised = scopetrace.record(t, dict(data), mode)
                out.append(json.dumps({"id": f"{base}-{start}-{n}-{mode}", "events": ev, "raised": raised, "src": templates["main"][:300]}, ensure_ascii=True))
    return out


def scope_traces(chk: Check, tier: str) -> None:
    """C->S: the push / pop / enter / exit events of every render of the generated programs are
    replayed by TLC as the machine of Trace_Scope.tla (NoUnderflow, Balanced, Nested, Clean)."""
    import json
    import os
    import shutil
    from concurrent.futures import ProcessPoolExecutor

    from . import tlc
    from .common import SCRATCH, workers
    plans = [("MC_Scopes", "scopes", {}, 2, 3), ("MC_Lambda", "lambda", {}, 4, 4), ("MC_Flow", "flow", {}, 1, 2),
             ("MC_Loops", "loops-nest", {"Variant": '"nest"'}, 2, 2), ("MC_Undef", "undef", {"Variant": '"single"'}, 1, 1),
             ("MC_Confused", "confused", {}, 1, 1)]
    out = SCRATCH / f"C07-scope-{os.getpid()}"
    shutil.rmtree(out, ignore_errors=True)
    out.mkdir(parents=True)
    try:
        for module, name, consts, q, t in plans:
            r = gen.run_focus(chk, module, name + "-trace", max_top=t if tier == "thorough" else q, extra_constants=consts,
                              export="ExportInputs", invariants=())
            if r is None:
                continue
            try:
                path = r.workdir / "out.ndjson"
                size = path.stat().st_size
                n = workers() * 2
                cuts = [0]
                with path.open("rb") as fd:
                    for i in range(1, n):
                        fd.seek(size * i // n)
                        fd.readline()
                        cuts.append(min(fd.tell(), size))
                cuts.append(size)
                jobs = [(str(path), a, b, name, tier) for a, b in zip(cuts, cuts[1:]) if b > a]
                lines = []
                with ProcessPoolExecutor(workers()) as ex:
                    for part in ex.map(_record_traces, jobs):
                        lines.extend(part)
            finally:
                r.cleanup()
            shards = []
            for k in range(0, len(lines), 4000):
                p = out / f"{name}-{k}.ndjson"
                p.write_text("\n".join(lines[k:k + 4000]) + "\n")
                shards.append(p)
            for p in shards:
                tr = tlc.run("Trace_Scope", tlc.cfg_text(invariants=["Verdict"]), tag=f"tracescope-{p.stem}", workers=8, heap="4g",
                             env={"TRACE_FILE": str(p)}, timeout=3000)
                try:
                    if tr.error or tr.invariant_violated:
                        chk.machinery_error = tr.error or "Trace_Scope evaluation failed"
                        continue
                    chk.tlc(tr, f"scope-trace validation {name} ({p.name})")
                    verdicts = {v["id"]: v for v in tr.out_lines()}
                    srcs = {}
                    for l in p.read_text().splitlines():
                        d = json.loads(l)
                        srcs[d["id"]] = d
                    chk.validated(len(srcs))
                    chk.add_distinct(len(srcs))
                    for tid, d in srcs.items():
                        v = verdicts.get(tid)
                        if v is None:
                            chk.machinery_error = f"no verdict for scope trace {tid}"
                        elif not v["ok"]:
                            chk.violation(f"scope-trace:{v['clause']}:{name}", {"kind": "scope-trace", "clause": v["clause"], "trace": d})
                finally:
                    tr.cleanup()
    finally:
        shutil.rmtree(out, ignore_errors=True)


def check(tier: str) -> int:
    chk = Check("C07", tier)
    chk.assumptions += ["non-interference is checked on the reference (TLC) and carried to the code by exact output equality",
                        "abandoned generators are finalised by CPython reference counting",
                        "TLC, Json/IOUtils modules, CPython"]
    top = 3 if tier == "thorough" else 2
    r = gen.run_focus(chk, "MC_Scopes", "scopes", max_top=top, invariants=("Total", "RenderIsolated"), timeout=6000)
    if r is not None:
        try:
            gen.replay_file(chk, r.workdir / "out.ndjson", "harness.c07", "judge")
        finally:
            r.cleanup()
    r = gen.run_focus(chk, "MC_Lambda", "lambda", max_top=4, timeout=6000)
    if r is not None:
        try:
            gen.replay_file(chk, r.workdir / "out.ndjson", "harness.c07", "judge")
        finally:
            r.cleanup()
    scope_traces(chk, tier)
    return chk.finish()


def replay_file(path: str) -> int:
    import json
    d = json.load(open(path))
    if d["record"].get("kind") == "scope-trace":
        tr = d["record"]["trace"]
        print(tr["src"])
        depth = 0
        for ev in tr["events"]:
            if ev["e"] == "exit":
                depth -= 1
            print("  " * depth + ev["e"], ev["n"] or f"map{ev['m']}")
            if ev["e"] == "enter":
                depth += 1
        print("clause:", d["record"]["clause"])
        print(f"VIOLATION property=C07 replay={path}")
        return 1
    from . import c01
    return c01.replay_file(path)
