"""C07 - render/macro scopes are isolated and block scopes do not leak.

TLC checks RenderIsolated (non-interference of a top-level `render` with the rest of the
program, both directions) on the reference semantics for every program of the scopes focus,
and exports every behaviour; the library must produce the model's text (isolation failures
show as different text because every name of the shared pool is printed inside and after
each construct), and a caller-owned RenderContext must have the same scope depth, loop
stack and current template after render_with_context returns or raises.
"""
from __future__ import annotations

from io import StringIO

from . import gen, replay
from .c01 import constructs
from .common import Check


def judge(rec, opts):
    out = []
    got, _ = replay.render_record(rec)
    f = replay.compare(rec, got)
    if f is not None and f["clause"] in ("output", "outcome", "error-class"):
        out.append((f"{rec['focus']}:{f['clause']}:{constructs(rec)}", f))
    # scope-stack discipline on a caller-owned context
    from liquid2 import DictLoader, RenderContext
    templates = {replay.conc(n): replay.conc(t) for n, t in rec["templates"]}
    layers = [replay.layer(x) for x in rec["data"]]
    main = replay.conc(rec["main"])
    env = replay.make_env(rec["cfg"], loader=DictLoader({k: v for k, v in templates.items() if k != main}))
    try:
        t = env.from_string(templates[main], name=main)
    except Exception:  # noqa: BLE001
        return out
    ctx = RenderContext(t, global_data=t.make_globals(layers[0]))
    before = (ctx.scope.size(), len(ctx.loops), ctx.template is t, dict(ctx.tag_namespace["macros"]) == {})
    raised = None
    try:
        t.render_with_context(ctx, StringIO())
    except Exception as e:  # noqa: BLE001
        raised = type(e).__name__
    after = (ctx.scope.size(), len(ctx.loops), ctx.template is t)
    if after != before[:3]:
        out.append((f"scope-stack:{'raise' if raised else 'return'}:{constructs(rec)}",
                    {"before": before, "after": after, "raised": raised}))
    return out


def check(tier: str) -> int:
    chk = Check("C07", tier)
    chk.assumptions += ["non-interference is checked on the reference (TLC) and carried to the code by exact output equality",
                        "abandoned generators are finalised by CPython reference counting",
                        "TLC, Json/IOUtils modules, CPython"]
    top = 3 if tier == "thorough" else 2
    r = gen.run_focus(chk, "MC_Scopes", "scopes", max_top=top, invariants=("Total", "RenderIsolated"), timeout=6000)
    if r is not None:
        try:
            gen.replay_file(chk, r.workdir / "out.ndjson", "harness.c07", "judge")
        finally:
            r.cleanup()
    r = gen.run_focus(chk, "MC_Lambda", "lambda", max_top=4, timeout=6000)
    if r is not None:
        try:
            gen.replay_file(chk, r.workdir / "out.ndjson", "harness.c07", "judge")
        finally:
            r.cleanup()
    return chk.finish()


def replay_file(path: str) -> int:
    from . import c01
    return c01.replay_file(path)
