"""C09 - a render depends only on its inputs, never on earlier or concurrent renders.

TLC enumerates every history of calls (render / render_async / analyze / from_string /
get_template, over a pool of templates exercising counters, cycles, loop offsets, captures,
macros, block overrides, partials and clock-dependent values; two data sets; faults at the
k-th data access; two differently configured Environments; clock ticks) and checks
HistoryIndependent on LiquidHistory.tla (refuted when the date-filter memo is switched on).
Each history is replayed on long-lived Environment / loader / Template objects under a
controlled clock, and every step must give what the same call gives on freshly built objects.
"""
from __future__ import annotations

import json
from concurrent.futures import ProcessPoolExecutor

from . import tlc
from .common import Check, chunks, seed, workers
from .sched import drive


class Boom(Exception):
    pass


class FaultyMap(dict):
    """A mapping that raises at its k-th item access."""

    def __init__(self, data, k):
        super().__init__(data)
        self.k = k
        self.n = 0

    def __getitem__(self, key):
        self.n += 1
        if self.k and self.n >= self.k:
            raise Boom(f"access {self.n}")
        return super().__getitem__(key)


DATA = {1: {"a": "A1", "b": "1000000", "l": [1, 2, 3], "n": 2}, 2: {"a": "A2", "b": "2000000", "l": [4, 5, 6, 7], "n": 5}}


class AsyncFaultyMap(FaultyMap):
    """The same, suspending once per access in async renders."""

    async def __getitem_async__(self, key):
        from .sched import pause
        await pause()
        return self[key]


class LoaderFault:
    """Shared by the loaders of one call: the k-th loader call raises."""
    k = 0
    n = 0


class Clock:
    now = 1_000_000

    class _DT:
        pass


_CLOCK_INSTALLED = False


def install_clock():
    global _CLOCK_INSTALLED
    if _CLOCK_INSTALLED:
        return
    _CLOCK_INSTALLED = True
    import datetime as real

    import liquid2.builtin.filters.misc as misc
    import liquid2.context as ctx

    class FakeDateTime(real.datetime):
        @classmethod
        def now(cls, tz=None):
            return cls.fromtimestamp(Clock.now)

    class FakeDate(real.date):
        @classmethod
        def today(cls):
            return cls.fromtimestamp(Clock.now)

    class FakeModule:
        datetime = FakeDateTime
        date = FakeDate
        timedelta = real.timedelta
        timezone = real.timezone

    ctx.datetime = FakeModule
    misc.datetime = FakeModule
    # whatever else asks the datetime module for the present - dateutil's parser completes '10:30' or
    # 'March 5' from today's date - is looking at the same clock (this process only renders templates)
    if real.datetime.__name__ != "FakeDateTime":
        real.datetime = FakeDateTime
        real.date = FakeDate


def make_env(which: int, partials: dict, shared=None):
    """Environment 1 reads a plain DictLoader over `partials` (edits of the dict are loader
    contents, every load is a loader call); Environment 2 caches."""
    from liquid2 import CachingDictLoader, DictLoader, Environment

    class CountingLoader(DictLoader):
        def get_source(self, env, template_name, **kw):
            LoaderFault.n += 1
            if LoaderFault.k and LoaderFault.n >= LoaderFault.k:
                raise Boom(f"loader call {LoaderFault.n}")
            return super().get_source(env, template_name, **kw)

        async def get_source_async(self, env, template_name, **kw):
            return self.get_source(env, template_name, **kw)

    if shared is not None:
        loader = shared                          # Environment 3 reads through Environment 2's loader object
    elif which == 1:
        loader = CountingLoader(partials)        # the dict itself: later edits are seen
    else:
        loader = CachingDictLoader(dict(partials))
    env = Environment(loader=loader, globals={"envname": f"env{which}"}, auto_escape=(which == 3))
    if which == 2:
        # a differently configured environment: its own filter and a changed built-in
        env.filters["upcase"] = lambda s: f"<{s}>"
        env.filters["only2"] = lambda s: "2"
    return env


def call(env, cache, op, pool, partials):
    from liquid2.exceptions import LiquidError
    t_id, kind = op["t"], op["op"]
    tpl = pool[t_id - 1]
    loader_fault = op.get("fk") == "loader"
    data = {"x": FaultyMap(DATA[op["d"]], 0 if loader_fault else op["fault"]), "v": f"V{op['d']}"}
    LoaderFault.n = 0
    LoaderFault.k = op["fault"] if loader_fault else 0
    try:
        if kind in ("render", "render_async", "analyze"):
            key = (id(env), t_id)
            if key not in cache:
                cache[key] = env.from_string(tpl["src"], name=tpl["name"])
            t = cache[key]
        elif kind == "from_string":
            t = env.from_string(tpl["src"], name=tpl["name"], globals={"gv": f"G{op['d']}"})
        else:
            t = env.get_template(tpl["name"], globals={"gv": f"G{op['d']}"})
        if kind == "analyze":
            a = t.analyze()
            return {"ok": True, "out": repr((sorted(a.variables), sorted(a.globals), sorted(a.filters), sorted(a.tags)))}
        if kind == "render_async":
            return {"ok": True, "out": drive(lambda: t.render_async(**data))}
        return {"ok": True, "out": t.render(**data)}
    except Boom:
        return {"ok": False, "err": "Boom"}
    except LiquidError as e:
        return {"ok": False, "err": type(e).__name__}
    except Exception as e:  # noqa: BLE001
        return {"ok": False, "err": "non-liquid:" + type(e).__name__}
    finally:
        LoaderFault.k = 0


def pair(env, cache, op, pool, solo: bool):
    """Two render_async calls on the Environment's long-lived Template objects (the same object
    when both are the same template), interleaved as the schedule says - or each alone."""
    from .sched import run_schedule, run_solo
    LoaderFault.k = 0
    facs = {}
    for slot, (t_id, d) in enumerate(((op["t"], op["d"]), (op["t2"], op["d2"])), start=1):
        tpl = pool[t_id - 1]
        key = (id(env), t_id)
        if key not in cache:
            cache[key] = env.from_string(tpl["src"], name=tpl["name"])
        t = cache[key]

        def fac(t=t, d=d):
            async def co():
                from liquid2.exceptions import LiquidError
                try:
                    return await t.render_async(x=AsyncFaultyMap(DATA[d], 0), v=f"V{d}")
                except LiquidError as e:
                    return f"error:{type(e).__name__}"
            return co()
        facs[slot] = fac
    if solo:
        return [run_solo(facs[1])[0], run_solo(facs[2])[0]]
    res = run_schedule(facs, list(op["sched"]))
    return [res.get(1), res.get(2)]


def replay(ops, pool, partials):
    """partials: name -> [version 1, version 2]."""
    install_clock()

    def contents(version):
        d = {n: v[version - 1] for n, v in partials.items()}
        d.update({t["name"]: t["src"] for t in pool})
        return d

    Clock.now = 1_000_000
    version = {1: 1, 2: 1}
    stores = {1: contents(1), 2: contents(1)}
    envs = {1: make_env(1, stores[1]), 2: make_env(2, stores[2])}
    envs[3] = make_env(3, stores[2], shared=envs[2].loader)
    version[3] = 1
    cache: dict = {}
    for i, op in enumerate(ops):
        if op["op"] == "tick":
            Clock.now += 90_000        # a tick is 25 hours: the day changes
            continue
        if op["op"] == "edit":
            version[1] = 3 - version[1]
            stores[1].update(contents(version[1]))
            continue
        e = op["env"]
        if op["op"] == "pair":
            got = pair(envs[e], cache, op, pool, solo=False)
            fresh = pair(make_env(e, contents(version[e])), {}, op, pool, solo=True)
        else:
            got = call(envs[e], cache, op, pool, partials)
            fresh = call(make_env(e, contents(version[e])), {}, op, pool, partials)
        if got != fresh:
            return {"at": i, "op": op, "history": got, "fresh": fresh}
        # ... and what the same call gives in a process where nothing else ever ran
        if op["op"] != "pair" and op["fault"] == 0 and PRISTINE:
            want = PRISTINE.get((e, op["t"], op["d"], version[e], op["op"], (Clock.now - 1_000_000) // 90_000))
            if want is not None and got != want:
                return {"at": i, "op": op, "history": got, "fresh": want, "oracle": "pristine-process"}
    return None


PRISTINE: dict = {}
MAX_TICKS = 8


def _pristine_entry(args):
    """Runs in an interpreter of its own (spawned, one task per process): what each kind of call gives
    for one (environment, template, data set, loader version), at every clock value a history can reach,
    before anything else has happened in the process."""
    e, t_id, d, version, pool, partials, only_tick = args
    install_clock()
    out = {}
    for ticks in ([only_tick] if only_tick is not None else range(MAX_TICKS + 1)):
        for kind in ("render", "render_async", "from_string", "get_template", "analyze"):
            Clock.now = 1_000_000 + 90_000 * ticks
            cont = {n: v[version - 1] for n, v in partials.items()}
            cont.update({t["name"]: t["src"] for t in pool})
            op = {"op": kind, "t": t_id, "d": d, "fk": "data", "fault": 0, "env": e}
            out[(e, t_id, d, version, kind, ticks)] = call(make_env(e, cont), {}, op, pool, partials)
            if not pool[t_id - 1]["clocked"]:
                for k2 in range(1, MAX_TICKS + 1):
                    out[(e, t_id, d, version, kind, k2)] = out[(e, t_id, d, version, kind, 0)]
        if not pool[t_id - 1]["clocked"]:
            break
    return out


def pristine_table(pool, partials) -> dict:
    """The reference that shares no process with any history: state that outlives the objects of a render
    (module-level memos, class attributes) cannot hide in it."""
    import multiprocessing as mp
    # (a template that shows the clock gets a process per clock value: a memo would carry one value into the next)
    jobs = [(e, t_id, d, version, pool, partials, tick) for e in (1, 2, 3) for t_id in range(1, len(pool) + 1) for d in (1, 2) for version in (1, 2)
            if version == 1 or (e == 1 and pool[t_id - 1]["loads"])
            for tick in (range(MAX_TICKS + 1) if pool[t_id - 1]["clocked"] else [None])]
    table = {}
    with mp.get_context("spawn").Pool(workers(), maxtasksperchild=1) as pl:
        for part in pl.imap_unordered(_pristine_entry, jobs):
            table.update(part)
    return table


def _chunk(args):
    hists, pool, partials = args[:3]
    if len(args) > 3:
        PRISTINE.update(args[3])
    out = []
    for ops in hists:
        try:
            f = replay(ops, pool, partials)
        except Exception as e:  # noqa: BLE001
            f = {"at": -1, "op": {"op": "harness", "t": 0}, "history": repr(e), "fresh": None}
        if f:
            out.append((ops, f))
    return len(hists), out[:50]


def check(tier: str) -> int:
    chk = Check("C09", tier)
    chk.assumptions += ["the clock is the harness's double (liquid2.context.datetime and the date filter's datetime)",
                        "oracle: the same call on freshly built Environment/loader/Template objects at the same clock value",
                        "TLC, Json/IOUtils modules, CPython"]
    thorough = tier == "thorough"
    seq = '{"call", "tick", "edit"}'
    ALL = {"TSet": "{}", "DSet": "{}", "ESet": "{1, 2}"}
    runs = [("exhaustive", dict(ALL, MaxOps="2", MaxFault="2" if thorough else "1", Kinds=seq, MaxSched="0"), None),
            # Environments 2 and 3 use one caching loader object: every pair of calls on them (triples in the thorough tier on what loads)
            ("shared-loader", {"MaxOps": "2", "MaxFault": "0", "Kinds": '{"call"}', "MaxSched": "0", "TSet": "{}", "DSet": "{}" if thorough else "{1}", "ESet": "{2, 3}"}, None),
            # call - tick - call on the templates that show the clock; call - edit - call on those that load partials
            ("clock", {"MaxOps": "3", "MaxFault": "0", "Kinds": '{"call", "tick"}', "MaxSched": "0", "TSet": "{6, 7, 14}", "DSet": "{}" if thorough else "{1}", "ESet": "{1, 2}"}, None),
            ("loader", {"MaxOps": "3", "MaxFault": "1" if thorough else "0", "Kinds": '{"call", "edit"}', "MaxSched": "0", "TSet": "{4, 5, 9, 12}", "DSet": "{1}", "ESet": "{1, 2}"}, None),
            ("pairs", dict(ALL, ESet="{1, 2, 3}", MaxOps="1", MaxFault="0", Kinds='{"pair"}', MaxSched="6" if thorough else "5"), None),
            ("random", dict(ALL, ESet="{1, 2, 3}", MaxOps="8" if thorough else "6", MaxFault="3", Kinds='{"call", "tick", "edit", "pair"}', MaxSched="4"),
             f"num={6000 if thorough else 1500}")]
    table = None
    for label, c, sim in runs:
        consts = dict(c, Dev="{}", Focus='"history"')
        r = tlc.run("LiquidHistory", tlc.cfg_text(constants=consts, invariants=["HistoryIndependent", "Export", "ExportPool"]),
                    tag=f"history-{label}", simulate=sim, depth=12 if sim else None, seed=seed() if sim else None, timeout=3000)
        try:
            if r.error:
                chk.machinery_error = r.error
                continue
            if r.invariant_violated:
                chk.spec_violation(r, "LiquidHistory")
                continue
            chk.tlc(r, f"histories ({label})", constants=consts)
            if sim:
                chk.cov["exhaustive"] = False
            meta = json.loads((r.workdir / "pool.json").read_text().splitlines()[0])
            hists = list({json.dumps(rec["ops"]): rec["ops"] for rec in r.out_lines()}.values())
        finally:
            r.cleanup()
        parts = {p["name"]: [p["src"], p["src2"]] for p in meta["partials"]}
        if table is None:
            table = pristine_table(meta["pool"], parts)
            chk.cov["samples"].append({"pristine_reference_entries": len(table)})
        jobs = [(c2, meta["pool"], parts, table) for c2 in chunks(hists, workers() * 3)]
        with ProcessPoolExecutor(workers()) as ex:
            for n, fails in ex.map(_chunk, jobs):
                chk.validated(n)
                chk.add_distinct(n)
                chk.cov["evaluations"] += n
                for ops, f in fails:
                    tname = meta["pool"][f["op"]["t"] - 1]["name"] if f["op"].get("t") else "?"
                    prior = sorted({o["op"] for o in ops[:max(f["at"], 0)]})
                    what = "schedule-dependent" if f["op"]["op"] == "pair" and not prior else "history-dependent"
                    if f.get("oracle") == "pristine-process":
                        what = "process-state-dependent"
                    chk.violation(f"{what}:{f['op']['op']}:{tname}:after:{','.join(prior)}", {"history": ops, "failure": f})
        if hists:
            chk.cov["samples"].append({"history": hists[0]})
    # non-vacuity: each named deviation is refuted by TLC
    for dev, kinds, sched in (("DateMemo", '{"call", "tick"}', "0"), ("PartialMemo", '{"call", "edit"}', "0"), ("SharedNode", '{"pair"}', "3"), ("SharedLoader", '{"call"}', "0")):
        r = tlc.run("LiquidHistory", tlc.cfg_text(constants={"MaxOps": "3", "MaxFault": "0", "Dev": '{"%s"}' % dev, "Focus": '"h"',
                                                             "Kinds": kinds, "MaxSched": sched, "TSet": "{}", "DSet": "{}", "ESet": "{1, 2, 3}"},
                                                  invariants=["HistoryIndependent"]), tag="history-dev", timeout=1200)
        try:
            if not r.invariant_violated:
                chk.machinery_error = f"vacuity: HistoryIndependent holds even with the deviation {dev}"
        finally:
            r.cleanup()
    return chk.finish()


def replay_file(path: str) -> int:
    import sys
    from . import tlc as _t
    d = json.load(open(path))
    rec = d["record"]
    r = _t.run("LiquidHistory", _t.cfg_text(constants={"MaxOps": "0", "MaxFault": "0", "Dev": "{}", "Focus": '"h"', "Kinds": "{}", "MaxSched": "0", "TSet": "{}", "DSet": "{}", "ESet": "{1, 2, 3}"},
                                            invariants=["ExportPool"]), tag="pool")
    meta = json.loads((r.workdir / "pool.json").read_text().splitlines()[0])
    r.cleanup()
    f = replay(rec["history"], meta["pool"], {p["name"]: [p["src"], p["src2"]] for p in meta["partials"]})
    for o in rec["history"]:
        print(o)
    print("now:", f)
    if f:
        print(f"VIOLATION property=C09 replay={path}")
        return 1
    return 0
