#!/venv/bin/python
"""Run every registered quick (or thorough) check, a few at a time; print one line each."""
import json, subprocess, sys, time
from concurrent.futures import ThreadPoolExecutor
from pathlib import Path
VERIF = Path(__file__).resolve().parent.parent
tier = sys.argv[1] if len(sys.argv) > 1 else "quick"
only = sys.argv[2:]
man = json.loads((VERIF / "MANIFEST.json").read_text())
def run(c):
    cmd = c["quick_cmd"] if tier == "quick" else c["thorough_cmd"]
    t0 = time.time()
    p = subprocess.run(cmd, shell=True, cwd=VERIF, capture_output=True, text=True)
    last = [l for l in p.stdout.splitlines() if l.startswith(c["property_id"] + " ")]
    bad = [l for l in p.stdout.splitlines() if l.startswith(("VIOLATION", "MACHINERY", "  signature"))]
    return c["property_id"], p.returncode, round(time.time() - t0), (last[-1] if last else p.stdout[-300:]), bad[:8]
checks = [c for c in man["checks"] if not only or c["property_id"] in only]
with ThreadPoolExecutor(2) as ex:
    for pid, rc, secs, line, bad in ex.map(run, checks):
        print(f"{pid} rc={rc} {secs}s | {line}")
        for b in bad:
            print("    ", b[:200])
