"""C20 - literals denote exactly what is written; json output decodes to its input.

TLC enumerates (LiquidLit.tla) every string value up to MaxLen code points over an alphabet of
control characters, quotes, backslash, `$`, `{`, markup characters, BMP and astral code points,
under every valid spelling of each code point (raw, \\uXXXX in both hex cases, surrogate pairs,
short escapes, escaped quote) and both quote characters; it checks on the specification that
decoding the spelling gives back the value (RoundTrip) and that the spelling is self-delimiting
(Delimited), and exports the literal embedded at every site where a string may appear.  The
library must print exactly the value (or find the data stored under it).  Number spellings are
exported with their exact decimal value (digits x 10^scale); JSON-like values are exported for
the json filter, whose output must decode to the input.
"""
from __future__ import annotations

import json
from fractions import Fraction

from . import gen, tlc
from .common import Check


def s_of(cps) -> str:
    return "".join(chr(c) for c in cps)


def jvalue(v):
    t = v["t"]
    if t == "nil":
        return None
    if t == "bool":
        return bool(v["b"])
    if t == "int":
        return int(v["n"])
    if t == "big":
        return int(v["d"])
    if t == "float":
        return float(v["f"])
    if t == "cps":
        return s_of(v["c"])
    if t == "arr":
        return [jvalue(x) for x in v["v"]]
    if t == "hash":
        return {s_of(k): jvalue(x) for k, x in v["h"]}
    raise ValueError(t)


def _env(opts):
    env = opts.get("_env")
    if env is None:
        from liquid2 import DictLoader, Environment
        env = opts["_env"] = Environment(loader=DictLoader({"p": "{{ v }}"}))
    return env


def judge(rec, opts):
    from liquid2 import DictLoader, Environment
    from liquid2.exceptions import LiquidError
    kind = rec["kind"]
    if kind == "str":
        value = s_of(rec["value"])
        src = s_of(rec["src"])
        site = rec["site"]
        if site in ("include-name", "render-name") and value == "":
            return []                   # the empty template name is nobody's template
        env = Environment(loader=DictLoader({value: "HIT", "p": "<{{ v }}>"} if site.endswith("-name") else {"p": "<{{ v }}>"}))
        want = "HIT" if rec["hit"] else rec["before"] + value + rec["after"]
        forms = "+".join(sorted(set(rec["forms"]))) or "empty"
        q = "dq" if rec["quote"] == 34 else "sq"
        try:
            got = env.from_string(src).render(x=value, h={value: "HIT"}, xs=[value], y="!")
        except LiquidError as e:
            return [(f"literal-rejected:{site}:{q}:{forms}", {"src": src, "want": want, "error": f"{type(e).__name__}: {e}"[:200]})]
        except Exception as e:  # noqa: BLE001
            return [(f"literal-raised-{type(e).__name__}:{site}:{q}:{forms}", {"src": src, "want": want})]
        if got != want:
            return [(f"literal-value:{site}:{q}:{forms}", {"src": src, "want": want, "got": got})]
        if site in ("output", "assign"):
            # the same through the size-limited output buffer (Environment.output_stream_limit)
            lim = opts.get("_limenv")
            if lim is None:
                class Limited(Environment):
                    output_stream_limit = 10 ** 6
                lim = opts["_limenv"] = Limited()
            try:
                got2 = lim.from_string(src).render(x=value, h={value: "HIT"}, xs=[value], y="!")
            except Exception as e:  # noqa: BLE001
                return [(f"literal-raised-{type(e).__name__}:{site}:limited-output:{q}:{forms}", {"src": src})]
            if got2 != want:
                return [(f"literal-value:{site}:limited-output:{q}:{forms}", {"src": src, "want": want, "got": got2})]
        return []
    if kind == "num":
        env = _env(opts)
        text = rec["text"]
        exact = Fraction(int(rec["digits"]) * (-1 if rec["neg"] else 1)) * (Fraction(10) ** rec["scale"])
        out = []
        shape = ("int" if rec["isint"] else "float") + (":exp" if "e" in text.lower() else "") + (":big" if len(rec["digits"].lstrip("0")) > 15 else "")
        for site, src in (("output", "{{ %s }}" % text), ("assign-json", "{%% assign n = %s %%}{{ n | json }}" % text),
                          ("filter-arg", "{{ 0 | plus: %s }}" % text), ("compare", "{%% if x == %s %%}HIT{%% endif %%}" % text),
                          # optional slots: a number that is written is there, also when it is zero
                          ("ternary-else", "{{ 1 if false else %s }}" % text), ("include-with", "{%% include 'p' with %s as v %%}" % text),
                          ("render-with", "{%% render 'p' with %s as v %%}" % text),
                          ("loop-limit", "{%% for i in (1..3) limit: %s %%}x{%% endfor %%}" % text)):
            if site == "loop-limit" and (not rec["isint"] or rec["neg"]):
                continue
            try:
                got = env.from_string(src).render(x=int(exact) if rec["isint"] else float(exact))
            except LiquidError as e:
                out.append((f"number-rejected:{site}:{shape}", {"src": src, "error": f"{type(e).__name__}: {e}"[:200]}))
                continue
            except Exception as e:  # noqa: BLE001
                out.append((f"number-raised-{type(e).__name__}:{site}:{shape}", {"src": src}))
                continue
            if site == "compare":
                ok = got == "HIT"
            elif site == "loop-limit":
                ok = got == "x" * min(int(exact), 3)
            elif rec["isint"]:
                # the number written is an integer: it prints as exactly that integer
                ok = got == str(int(exact))
            else:
                try:
                    ok = float(got) == float(exact)          # the nearest double of the decimal written
                except ValueError:
                    ok = False
            if not ok:
                out.append((f"number-value:{site}:{shape}", {"src": src, "exact": str(exact), "got": got}))
        return out
    if kind == "json":
        env = _env(opts)
        value = jvalue(rec["value"])
        shape = rec["value"]["t"]
        try:
            text = env.from_string("{{ x | json }}").render(x=value)
            back = json.loads(text)
        except LiquidError as e:
            return [(f"json-rejected:{shape}", {"value": repr(value), "error": str(e)[:200]})]
        except Exception as e:  # noqa: BLE001
            return [(f"json-undecodable-{type(e).__name__}:{shape}", {"value": repr(value)})]
        if back != value or type(back) is not type(value):
            return [(f"json-roundtrip:{shape}", {"value": repr(value), "text": text, "back": repr(back)})]
        # with an indent argument too
        try:
            back2 = json.loads(env.from_string("{{ x | json: 2 }}").render(x=value))
        except Exception as e:  # noqa: BLE001
            return [(f"json-indent-{type(e).__name__}:{shape}", {"value": repr(value)})]
        if back2 != value:
            return [(f"json-indent-roundtrip:{shape}", {"value": repr(value), "back": repr(back2)})]
        return []
    return []


def _judge(rec, opts):
    return judge(rec, _OPTS)


_OPTS: dict = {}


def check(tier: str) -> int:
    chk = Check("C20", tier)
    chk.assumptions += ["alphabet of 26 code points standing for their classes (controls >= U+0008, quotes, backslash, $, braces, %, "
                        "letters that are also escape names, DEL, Latin-1, U+2028, BMP edges around the surrogates, astral edges)",
                        "floats: 'exactly the number written' is the double nearest to the decimal spelling",
                        "TLC, Json/IOUtils modules, CPython"]
    runs = [("str", 2 if tier == "quick" else 3, ["RoundTrip", "Delimited", "Export"]), ("num", 0, ["Export"]), ("json", 0, ["Export"])]
    for mode, maxlen, invs in runs:
        r = tlc.run("LiquidLit", tlc.cfg_text(constants={"Mode": f'"{mode}"', "MaxLen": str(maxlen), "Focus": f'"lit-{mode}"'}, invariants=invs),
                    tag=f"lit-{mode}", timeout=6000)
        try:
            if r.error:
                chk.machinery_error = r.error
                continue
            if r.invariant_violated:
                chk.spec_violation(r, f"LiquidLit {mode}")
                continue
            chk.tlc(r, f"literals ({mode})", constants={"MaxLen": maxlen})
            gen.replay_file(chk, r.workdir / "out.ndjson", "harness.c20", "_judge")
        finally:
            r.cleanup()
    return chk.finish()


def replay_file(path: str) -> int:
    d = json.load(open(path))
    rec = d["record"].get("record")
    if rec is None:
        print("\n".join(d["record"].get("trace", [])))
        return 1
    res = judge(rec, {})
    print({k: v for k, v in rec.items() if k != "src"}, repr(s_of(rec["src"])) if "src" in rec else "")
    for sig, det in res:
        print("FAILS:", sig, det)
    if res:
        print(f"VIOLATION property=C20 replay={path}")
        return 1
    print("conforms")
    return 0
