"""C08 - template inheritance resolves every block to its most-derived override.

LiquidInherit.tla builds every chain of up to MaxDepth templates (each independently omits /
defines / defines-with-block.super / marks required each of two block names, optionally
nesting one in the other; malformed templates; circular and dangling chains; entry through
include / render; a root parent that includes a partial which itself extends).  TLC checks
that the per-render block stacks of LiquidSem (the "how") produce the page of the reference
fold Page (the "what") on every well-formed chain, that malformed and circular chains are
rejected, and exports every chain; the library must render each the same way through
DictLoader and CachingDictLoader, sync and async.
"""
from __future__ import annotations

import json

from . import gen, replay, tlc
from .common import Check
from .sched import drive


LIMIT_S = 4


class _TooLong(BaseException):
    pass


def _limited(go):
    """replay.outcome(go), given LIMIT_S seconds: a chain that is never rejected (a loop) is an outcome, not a hang of the check."""
    import signal

    def onalarm(signum, frame):
        raise _TooLong()
    old = signal.signal(signal.SIGALRM, onalarm)
    signal.alarm(LIMIT_S)
    try:
        return replay.outcome(go)
    except _TooLong:
        return {"ok": False, "err": "DoesNotReturn", "mro": [], "nonliquid": True, "msg": f"no result within {LIMIT_S}s", "site": "?"}
    finally:
        signal.alarm(0)
        signal.signal(signal.SIGALRM, old)


def _keep(go, caught):
    from liquid2.exceptions import LiquidError
    try:
        return go()
    except LiquidError as e:
        caught.append(e)
        raise


def judge_positions(rec, opts):
    return judge(rec, {"_positions": True})


def judge(rec, opts):
    from liquid2 import CachingDictLoader, DictLoader
    out = []
    templates = {replay.conc(n): replay.conc(t) for n, t in rec["templates"]}
    main = replay.conc(rec["main"])
    args = replay.layer(rec["data"][0])
    for lname, mk in (("dict", DictLoader), ("caching", CachingDictLoader)):
        for mode in ("sync", "async"):
            env = replay.make_env(rec["cfg"], loader=mk(dict(templates)))

            def go():
                if mode == "sync":
                    return env.get_template(main).render(**args)

                async def co():
                    t = await env.get_template_async(main)
                    return await t.render_async(**args)
                return drive(co)
            caught: list = []
            got = _limited(lambda: _keep(go, caught))
            # C17: an error raised while the chain renders names the template its position lies in
            if opts.get("_positions"):
                for e in caught:
                    tok, tn = getattr(e, "token", None), getattr(e, "template_name", None)
                    tsrc = getattr(tok, "source", None)
                    if tn in templates and isinstance(tsrc, str) and tsrc != templates[tn] and tsrc in templates.values():
                        out.append((f"error-names-another-template:{type(e).__name__}:{lname}:{mode}",
                                    {"named": tn, "token_belongs_to": [n for n, t in templates.items() if t == tsrc], "error": str(e)[:300]}))
                continue
            f = replay.compare(rec, got)
            if f is not None:
                shape = "entered-via-" + main if main in ("inc", "ren") else ("mixed-chains" if main == "mix1" else "chain")
                esc = ":autoescape" if rec["cfg"].get("autoescape") else ""
                out.append((f"inherit:{f['clause']}:{shape}:{lname}:{mode}{esc}", f))
                if got.get("err") == "DoesNotReturn":
                    return out      # the other loaders / modes would only wait as long again
    return out


def check(tier: str) -> int:
    chk = Check("C08", tier)
    chk.assumptions += ["blocks hold text, output of a global and block.super (no assignments or counters inside blocks)",
                        "children start with their extends tag (text before it is outside the generated space)",
                        "TLC, Json/IOUtils modules, CPython"]
    depth = 3 if tier == "thorough" else 2
    # auto escape off, then on (the data holds markup; block.super is rendered output and is not escaped again)
    for esc in ("FALSE", "TRUE"):
        consts = {"MaxDepth": str(depth), "Focus": '"inherit"' if esc == "FALSE" else '"inherit-escape"', "AutoEsc": esc}
        r = tlc.run("LiquidInherit", tlc.cfg_text(constants=consts, invariants=["RefinesReference", "Rejected", "Circular", "CircularInner", "Export"]),
                    tag="inherit" + esc[0], extra_files={"concrete.json": gen.CONCRETE}, timeout=7000)
        try:
            if r.error:
                chk.machinery_error = r.error
            elif r.invariant_violated:
                chk.spec_violation(r, "LiquidInherit")
            else:
                chk.tlc(r, f"all chains of depth <= {depth} over 2 block names x {{omit, plain, super, required}} x nesting, + malformed/circular/dangling; auto escape {esc}")
                gen.replay_file(chk, r.workdir / "out.ndjson", "harness.c08", "judge")
        finally:
            r.cleanup()
    return chk.finish()


def replay_file(path: str) -> int:
    d = json.load(open(path))
    rec = d["record"].get("record")
    if rec is None:
        print("\n".join(d["record"].get("trace", [])))
        return 1
    res = judge(rec, {})
    for n, t in rec["templates"]:
        print(f"  {n}: {t}")
    print("expected:", rec["expect"])
    for sig, f in res:
        print("FAILS:", sig, f)
    if res:
        print(f"VIOLATION property=C08 replay={path}")
        return 1
    print("conforms")
    return 0
