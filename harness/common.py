"""Shared plumbing of the checks: tiers, seeds, evidence, known findings, verdict lines."""
from __future__ import annotations

import hashlib
import json
import os
import sys
import time
from pathlib import Path

VERIF = Path(__file__).resolve().parent.parent
REPO = Path(os.environ.get("VERIF_REPO", "/repo"))
CACHE = VERIF / ".cache"
EVIDENCE = Path(os.environ.get("VERIF_EVIDENCE", str(VERIF / "evidence")))
REPLAYS = Path(os.environ.get("VERIF_REPLAYS", str(CACHE / "replays")))
SCRATCH = CACHE / "scratch"
KNOWN = VERIF / "known_findings.json"

os.environ.setdefault("PYTHONHASHSEED", "0")
os.environ["LIQUID2_VERIF"] = "1"

# liquid2 must come from /repo's *current working tree*
if str(REPO) not in sys.path:
    sys.path.insert(0, str(REPO))


def seed() -> int:
    try:
        return int(os.environ.get("VERIF_SEED", "0"))
    except ValueError:
        return 0


def workers() -> int:
    return max(1, min(16, os.cpu_count() or 1))


def load_known() -> list[dict]:
    if not KNOWN.exists():
        return []
    return [f for f in json.loads(KNOWN.read_text())["findings"] if f.get("status") == "open"]


class Check:
    """Collects what one run of one property's check covered and found."""

    def __init__(self, pid: str, tier: str, level: str = "model_checking"):
        self.pid = pid
        self.tier = tier
        self.level = level
        self.seed = seed()
        self.t0 = time.time()
        self.cov: dict = {
            "states": 0, "transitions": 0, "traces_validated_against_impl": 0,
            "samples": [], "evaluations": 0, "distinct_nontrivial": 0,
            "tlc_runs": [], "exhaustive": True,
        }
        self.assumptions: list[str] = []
        self._viol: dict[str, dict] = {}
        self._known_hits: dict[str, int] = {}
        self._known = {f["signature"]: f for f in load_known() if f["property"] == pid}
        self._distinct: set[str] = set()
        self._distinct_n = 0
        self.machinery_error: str | None = None

    # ---- coverage ----
    def tlc(self, r, what: str, **extra) -> None:
        """Account a TLC run (harness.tlc.TlcRun)."""
        self.cov["states"] += r.distinct
        self.cov["transitions"] += r.generated
        entry = {"what": what, "module": r.tag, "distinct_states": r.distinct,
                 "states_generated": r.generated, "depth": r.depth,
                 "wall_s": round(r.wall_s, 1)}
        if r.coverage:
            entry["actions"] = {k: v[0] for k, v in r.coverage.items()}
        entry.update(extra)
        self.cov["tlc_runs"].append(entry)

    def case(self, key: str, sample=None, nontrivial: bool = True) -> None:
        self.cov["evaluations"] += 1
        if nontrivial and key not in self._distinct:
            self._distinct.add(key)
            if sample is not None and len(self.cov["samples"]) < 6:
                self.cov["samples"].append(sample)

    def add_distinct(self, n: int) -> None:
        self._distinct_n += n

    def validated(self, n: int = 1) -> None:
        self.cov["traces_validated_against_impl"] += n

    # ---- verdicts ----
    def violation(self, signature: str, record: dict) -> None:
        """A failing behaviour. `signature` names the specific thing that fails."""
        if signature in self._known:
            self._known_hits[signature] = self._known_hits.get(signature, 0) + 1
            return
        if signature not in self._viol and len(self._viol) < 25:
            self._viol[signature] = record

    def spec_violation(self, r, what: str) -> None:
        """TLC refuted a property on the specification itself."""
        self.violation(f"spec:{what}:{r.invariant_violated or ('deadlock' if r.deadlock else 'error')}",
                       {"kind": "spec", "what": what, "trace": r.trace[:200]})

    def finish(self) -> int:
        self.cov["distinct_nontrivial"] = len(self._distinct) + self._distinct_n
        EVIDENCE.mkdir(exist_ok=True)
        lines = []
        for sig, n in sorted(self._known_hits.items()):
            f = self._known[sig]
            lines.append(f"KNOWN-FINDING: property={self.pid} {f['what']} [{sig}] ({n} behaviours)")
        rc = 0
        for sig, rec in self._viol.items():
            REPLAYS.joinpath(self.pid).mkdir(parents=True, exist_ok=True)
            h = hashlib.sha1(sig.encode()).hexdigest()[:12]
            path = REPLAYS / self.pid / f"{h}.json"
            path.write_text(json.dumps({"property": self.pid, "signature": sig, "record": rec},
                                       indent=1, ensure_ascii=False, default=str))
            lines.append(f"VIOLATION property={self.pid} replay={path}")
            lines.append(f"  signature: {sig}")
            rc = 1
        if self.machinery_error:
            lines.append(f"MACHINERY-ERROR property={self.pid} {self.machinery_error}")
            rc = 2
        ev = {
            "property_id": self.pid,
            "tier": self.tier,
            "seed": self.seed,
            "level": self.level,
            "coverage": self.cov,
            "assumptions": self.assumptions,
            "wall_s": round(time.time() - self.t0, 2),
            "violations": len(self._viol),
            "known_findings_seen": self._known_hits,
        }
        if not self.cov["samples"]:
            self.cov["samples"] = ["(no case completed)"]
        (EVIDENCE / f"{self.pid}.json").write_text(json.dumps(ev, indent=1, ensure_ascii=False, default=str))
        for ln in lines:
            print(ln)
        print(f"{self.pid} {self.tier}: states={self.cov['states']} transitions={self.cov['transitions']} "
              f"replayed={self.cov['traces_validated_against_impl']} distinct={self.cov['distinct_nontrivial']} "
              f"violations={len(self._viol)} known={sum(self._known_hits.values())} "
              f"wall={ev['wall_s']}s -> exit {rc}")
        return rc


def chunks(seq, n):
    k = max(1, (len(seq) + n - 1) // n)
    for i in range(0, len(seq), k):
        yield seq[i:i + k]
