#!/venv/bin/python
"""Development helper: run one focus and print grouped mismatches.
usage: dev.py MODULE FOCUS MAXTOP [Const=Value ...] [--sim num=..] """
import collections, json, sys
from pathlib import Path
sys.path.insert(0, str(Path(__file__).resolve().parent.parent))
from harness import gen, replay
from harness.common import Check

def main():
    module, focus, top = sys.argv[1], sys.argv[2], int(sys.argv[3])
    consts = dict(a.split("=", 1) for a in sys.argv[4:] if "=" in a and not a.startswith("--"))
    chk = Check("DEV", "quick")
    r = gen.run_focus(chk, module, focus, max_top=top, extra_constants=consts)
    if r is None:
        e = chk.machinery_error or ""
        i = e.find("Error:")
        print(e[i:i + 2500] if i >= 0 else e[-2500:])
        for k, v in chk._viol.items():
            print(k); print("\n".join(v.get("trace", [])[:40]))
        return
    fails = collections.OrderedDict(); n = 0
    for rec in r.out_lines():
        n += 1
        got, _ = replay.render_record(rec)
        f = replay.compare(rec, got)
        if f:
            key = (f["clause"], rec["templates"][0][1][:70])
            fails.setdefault(key, []).append((rec, f))
    print(f"{n} records, states {r.distinct}, {round(r.wall_s,1)}s, {len(fails)} failing templates")
    for k, lst in list(fails.items())[:40]:
        rec, f = lst[0]
        print(len(lst), k, "\n    data", rec["data"][0], "cfg", {a: b for a, b in rec["cfg"].items() if a in ("trim", "suppress", "undef", "autoescape")},
              "\n    exp", repr(f["expected"]), "\n    got", repr(f["got"]) if not isinstance(f["got"], dict) else (f["got"].get("out"), f["got"].get("err"), f["got"].get("msg")))
    r.cleanup()
main()
