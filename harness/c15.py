"""C15 - message extraction covers every catalog lookup a render can make.

LiquidMsg.tla defines, for templates made of translate tags, translation filters (literal and
non-literal operands, at every expression site), comments and fillers, what a render asks of
the catalog (Calls) and what extraction reports (Extracted); TLC checks Covered (every lookup
whose identifiers are template literals is reported with the same family, ids and line) and
CommentsOnce on the specification, and exports source, expected lookups for counts 0/1/2 and
the expected extraction.  The library renders each template with a recording Translations
double - the lookups must be the model's - and extracts messages - the report must be the
model's (line, family, ids, translator comments); extraction must never raise.
"""
from __future__ import annotations

from . import tlc
from .common import Check
from . import gen


class Catalog:
    def __init__(self):
        self.calls = []

    def gettext(self, message):
        self.calls.append({"fam": "gettext", "ctx": "", "id": message, "plural": "", "n": -1})
        return message

    def ngettext(self, singular, plural, n):
        self.calls.append({"fam": "ngettext", "ctx": "", "id": singular, "plural": plural, "n": n})
        return singular if n == 1 else plural

    def pgettext(self, ctx, message):
        self.calls.append({"fam": "pgettext", "ctx": ctx, "id": message, "plural": "", "n": -1})
        return message

    def npgettext(self, ctx, singular, plural, n):
        self.calls.append({"fam": "npgettext", "ctx": ctx, "id": singular, "plural": plural, "n": n})
        return singular if n == 1 else plural


def norm_extracted(m) -> dict:
    fam = m.funcname
    msg = m.message
    ctx, plural = "", ""
    parts = list(msg)
    if parts and isinstance(parts[0], tuple):
        ctx = parts[0][0]
        parts = parts[1:]
    ident = parts[0] if parts else ""
    if len(parts) > 1:
        plural = parts[1]
    return {"line": m.lineno, "msg": {"fam": fam, "ctx": ctx, "id": ident, "plural": plural}, "comments": list(m.comments)}


def multi_line_dropped(rec, got, want) -> bool:
    """The only difference: the comment of a multi-line {% comment %} block is missing."""
    if not any(it["k"] == "comment" and it["site"] == "block-multi" for it in rec["items"]):
        return False
    key = lambda e: (e["line"], e["msg"]["fam"], e["msg"]["id"])  # noqa: E731
    for g, w in zip(sorted(got, key=key), sorted(want, key=key)):
        if g["comments"] != w["comments"] and g["comments"] != []:
            return False
    return True


def shape(rec) -> str:
    return "+".join(f"{it['k']}:{it['f'] or it['site']}:{it['site']}" if it["k"] == "filter" else f"{it['k']}:{it['site']}" for it in rec["items"])[:90]


def judge(rec, opts):
    from liquid2 import Environment
    from liquid2.exceptions import LiquidError
    from liquid2.messages import extract_from_template
    env = opts.get("_env")
    if env is None:
        env = opts["_env"] = Environment()
    src = rec["src"]
    out = []
    try:
        t = env.from_string(src)
    except LiquidError as e:
        return [(f"does-not-parse:{shape(rec)}", {"src": src, "error": str(e)[:200]})]
    try:
        got = [norm_extracted(m) for m in extract_from_template(t)]
    except Exception as e:  # noqa: BLE001
        return [(f"extraction-raised-{type(e).__name__}:{shape(rec)}", {"src": src, "error": str(e)[:200]})]
    want = [dict(e, comments=list(e["comments"])) for e in rec["extracted"]]
    key = lambda e: (e["line"], e["msg"]["fam"], e["msg"]["id"])  # noqa: E731
    if sorted(got, key=key) != sorted(want, key=key):
        gm = [{"line": e["line"], **e["msg"]} for e in sorted(got, key=key)]
        wm = [{"line": e["line"], **e["msg"]} for e in sorted(want, key=key)]
        kind = "messages" if gm != wm else "comments"
        if kind == "comments" and multi_line_dropped(rec, got, want):
            kind = None     # a comment spanning several lines may stay unattached: the property only says where a comment may NOT go
        if kind:
            out.append((f"extraction-{kind}:{shape(rec)}", {"src": src, "want": want, "got": got}))
    calls = rec["calls"]
    for n in (0, 1, 2):
        cat = Catalog()
        try:
            text = t.render(m="Hello", pl="Hellos", cx="vctx", n=n, yes=True, no=False, translations=cat)
        except LiquidError as e:
            out.append((f"render-failed:{shape(rec)}", {"src": src, "n": n, "error": str(e)[:200]}))
            break
        wantc = calls[str(n)] if isinstance(calls, dict) else calls[n]
        if cat.calls != list(wantc):
            out.append((f"catalog-lookups:{shape(rec)}", {"src": src, "n": n, "want": wantc, "got": cat.calls}))
            break
        wanto = rec["outs"][str(n)] if isinstance(rec["outs"], dict) else rec["outs"][n]
        if text != wanto:
            out.append((f"translated-output:{shape(rec)}", {"src": src, "n": n, "want": wanto, "got": text}))
            break
    # a catalog asked for by the names the template uses (Babel's `keywords` maps source names): never fails, and holds the
    # messages of the `t` filters and translate tags that the full extraction found
    if not out:
        from liquid2.messages import extract_from_templates
        try:
            cat2 = extract_from_templates(t, keywords={"t": None, "translate": None})
            ids = {m.id if isinstance(m.id, str) else m.id[0] for m in cat2 if m.id}
        except Exception as e:  # noqa: BLE001
            out.append((f"catalog-by-source-names-raised-{type(e).__name__}:{shape(rec)}", {"src": src, "error": repr(e)[:200]}))
            ids = None
        if ids is not None:
            # every message such a catalog holds is one the full extraction reported
            extra = sorted(ids - {e["msg"]["id"] for e in got})
            if extra:
                out.append((f"catalog-by-source-names-invents:{shape(rec)}", {"src": src, "ids": extra}))
    # whatever the count turns out to be - nil, missing, text, a fraction, a negative number, an array, a boolean -
    # a lookup the render makes is one the extraction reported: same family, context, message id and plural form
    literal_only = all(it.get("ctx") != "var" and it.get("plural") != "var" and not (it["k"] == "filter" and it.get("left") == "var")
                       for it in rec["items"])
    if not out and literal_only:
        reported = {(e["msg"]["fam"], e["msg"]["ctx"], e["msg"]["id"], e["msg"]["plural"]) for e in got}
        for label, extra in CONFUSED_COUNTS:
            cat = Catalog()
            try:
                t.render(m="Hello", pl="Hellos", cx="vctx", yes=True, no=False, translations=cat, **extra)
            except LiquidError:
                continue
            for c in cat.calls:
                # (programs with a message id, context or plural computed from data are left out: such a lookup cannot be
                # reported statically - spec/UNSPECIFIED.md); the messages reported for this id and context:
                same = {(f, pl) for f, cx, i, pl in reported if i == c["id"] and cx == c["ctx"]}
                if same and (c["fam"], c["plural"]) not in same:
                    out.append((f"lookup-not-extracted:count-{label}:{shape(rec)}",
                                {"src": src, "count": label, "call": c, "extracted": sorted(reported)}))
                    return out
    return out


CONFUSED_COUNTS = (("nil", {"n": None}), ("missing", {}), ("text", {"n": "many"}), ("fraction", {"n": 2.5}),
                   ("negative", {"n": -3}), ("array", {"n": [1, 2]}), ("true", {"n": True}), ("numeric-text", {"n": "2"}))


def _judge(rec, opts):
    return judge(rec, _OPTS)


_OPTS: dict = {}


def empty_templates(chk) -> None:
    """Extraction never fails on a template that parses - the empty one included."""
    from liquid2 import Environment
    from liquid2.messages import extract_from_template
    env = Environment()
    for src in ("", " ", "\n", "{# only a comment #}", "plain"):
        chk.validated(1)
        try:
            list(extract_from_template(env.from_string(src)))
        except Exception as e:  # noqa: BLE001
            chk.violation(f"extraction-raised-{type(e).__name__}:empty-template", {"src": src, "error": str(e)[:200]})


def check(tier: str) -> int:
    chk = Check("C15", tier)
    chk.assumptions += ["a plural without a count (t) is a malformed use and is not generated; computed contexts/plurals cannot be reported",
                        "catalog = the harness's recording Translations double passed as the `translations` variable",
                        "TLC, Json/IOUtils modules, CPython"]
    runs = [("tags", 1), ("filters", 1), ("comments", 4), ("mixed", 2 if tier == "quick" else 3), ("breaks", 3), ("markers", 2)]
    for variant, top in runs:
        r = tlc.run("LiquidMsg", tlc.cfg_text(constants={"MaxTop": str(top), "Focus": f'"msg-{variant}"', "Variant": f'"{variant}"'},
                                              invariants=["Covered", "CommentsOnce", "Export"]), tag=f"msg-{variant}", timeout=3000)
        try:
            if r.error:
                chk.machinery_error = r.error
                continue
            if r.invariant_violated:
                chk.spec_violation(r, f"LiquidMsg {variant}")
                continue
            chk.tlc(r, f"message templates ({variant})", constants={"MaxTop": top})
            gen.replay_file(chk, r.workdir / "out.ndjson", "harness.c15", "_judge")
        finally:
            r.cleanup()
    empty_templates(chk)
    return chk.finish()


def replay_file(path: str) -> int:
    import json
    d = json.load(open(path))
    rec = d["record"].get("record")
    if rec is None:
        print(json.dumps(d["record"], indent=1)[:3000])
        return 1
    res = judge(rec, {})
    print(rec["src"])
    for sig, det in res:
        print("FAILS:", sig, {k: v for k, v in det.items() if k != "src"})
    if res:
        print(f"VIOLATION property=C15 replay={path}")
    return 1 if res else 0
