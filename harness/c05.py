"""C05 - templates cannot reach Python attributes of context objects.

The reference semantics knows context objects only through the documented protocol: a mapping
drop is the hash of the keys it exposes, a sequence drop the array of its items, a plain
instance (LiquidValues: Opaque) has a string form and nothing else.  TLC enumerates the programs
of the attr focus - paths, bracketed and computed keys, string-key and arrow-function filter
arguments, loop drops, tag arguments, all drawn from the Python attribute names of the context
objects (dunder names included) - and computes what they render to.  Every behaviour is replayed
twice, with dict/list data and with Mapping/Sequence drops that keep secrets in attributes,
methods and properties; the library must
  - produce the model's output (where the model predicts one),
  - never print a secret, a class, function, module or method,
  - never read one of the non-protocol attributes by name, call a method or evaluate a property,
  - never hand such a value to a filter (every registered filter is wrapped by a spy).
"""
from __future__ import annotations

import re
import types

from . import drops, gen, replay
from .common import Check

FORBIDDEN = {"strftime", "isoformat", "timetuple", "utcoffset", "auto_escape", "env", "filters", "tags", "num", "secret", "method", "prop", "_private", "data", "__init__", "__globals__", "__dict__", "__doc__", "__module__",
             "_d", "_l", "_s", "_hide", "__subclasses__", "__mro__", "__bases__", "__func__", "__self__", "__code__", "__closure__"}
MARKS = re.compile(r"SECRET|4242|<class|<bound method|<function|<module|object at 0x|built-in|mappingproxy|slot wrapper|method-wrapper|<property")
HANDED: list[str] = []


def _tainted(v, depth=0) -> bool:
    if isinstance(v, str):
        return "SECRET" in v
    if isinstance(v, (type, types.ModuleType, types.FunctionType, types.MethodType, types.BuiltinFunctionType, property)):
        return True
    if depth < 3 and isinstance(v, (list, tuple)):
        return any(_tainted(x, depth + 1) for x in v)
    if depth < 3 and isinstance(v, dict):
        return any(_tainted(x, depth + 1) for x in v.values())
    return False


def spy_filters(env) -> None:
    for name, f in list(env.filters.items()):
        def make(f=f, name=name):
            def spy(left, *args, **kwargs):
                for v in (left, *args, *[x for k, x in kwargs.items() if k not in ("context", "environment")]):
                    if _tainted(v):
                        HANDED.append(name)
                return f(left, *args, **kwargs)
            for flag in ("with_context", "with_environment"):
                if getattr(f, flag, False):
                    setattr(spy, flag, True)
            if hasattr(f, "validate"):
                spy.validate = f.validate
            return spy
        env.filters[name] = make()


def constructs(rec) -> str:
    src = dict((n, t) for n, t in rec["templates"])[rec["main"]]
    names = re.findall(r"\|\s*([a-z_0-9]+)", src)
    tags = re.findall(r"\{%-?\s*([a-z]+)", src)
    attr = re.findall(r"(__[a-z]+__|secret|method|prop|_private|items|keys|data|get)\b", src)
    return ",".join(sorted(set(tags))) + "/" + "|".join(names[:2]) + "/" + (attr[0] if attr else "")


def render(rec, as_drops: bool, mode: str):
    import asyncio

    from liquid2 import DictLoader
    cfg = rec["cfg"]
    templates = {replay.conc(n): replay.conc(t) for n, t in rec["templates"]}
    args = replay.layer(rec["data"][0])
    if as_drops:
        args = {k: drops.dropify(v) for k, v in args.items()}
    env = replay.make_env(cfg, loader=DictLoader(dict(templates)))
    spy_filters(env)
    main = replay.conc(rec["main"])

    def run():
        t = env.from_string(templates[main], name=main)
        if mode == "async":
            async def coro():
                return await t.render_async(**args)
            return asyncio.run(coro())
        return t.render(**args)

    drops.reset()
    HANDED.clear()
    got = replay.outcome(run)
    reads = sorted({n for _c, n in drops.LOG if n in FORBIDDEN})
    calls = sorted(set(drops.CALLS))
    handed = sorted(set(HANDED))
    return got, reads, calls, handed


def judge(rec, opts):
    out = []
    unspec = rec["expect"].get("err") == "UNSPEC" or not opts.get("compare")
    for as_drops in (False, True):
        for mode in ("sync", "async") if as_drops else ("sync",):
            got, reads, calls, handed = render(rec, as_drops, mode)
            tag = ("drops" if as_drops else "plain") + ("-async" if mode == "async" else "")
            where = constructs(rec)
            if got.get("nonliquid"):
                out.append((f"{tag}:raised-{got['err']}@{got.get('site')}", {"got": got}))
                continue
            # (the text of an error message is not template output: it quotes the template source
            # and the Python exception it wraps)
            m = MARKS.search(got["out"]) if got["ok"] else None
            if m:
                out.append((f"{tag}:leak:{m.group(0)}:{where}", {"got": got}))
            if reads:
                out.append((f"{tag}:attribute-read:{','.join(reads)}:{where}", {"reads": reads, "got": got}))
            if calls:
                out.append((f"{tag}:called:{','.join(calls)}:{where}", {"calls": calls, "got": got}))
            if handed:
                out.append((f"{tag}:handed-to-filter:{','.join(handed)}:{where}", {"got": got}))
            # whole-value filters on a drop (first, size, join ... of a Mapping that is not a dict) are a
            # matter of representation, not of attribute access: compared for dict/list data only
            whole = as_drops and re.search(r"\{\{ (m|o|s|os) \| (size|first|last|join|upcase|default|reverse) ", dict((n, t) for n, t in rec["templates"])[rec["main"]])
            if not unspec and not out and not whole:
                f = replay.compare(rec, got)
                if f is not None:
                    out.append((f"{tag}:{f['clause']}:{where}", f))
    return out[:2]


def check(tier: str) -> int:
    chk = Check("C05", tier)
    chk.assumptions += ["the protocol: item access, len, iteration, str/number conversion, Mapping/Sequence ABC methods, "
                        "__liquid__/__html__/__getitem_async__; isinstance checks may read __class__",
                        "implicit special-method lookups (len(), obj[key]) are the protocol itself and are not logged",
                        "TLC, Json/IOUtils modules, CPython"]
    top = 1 if tier == "quick" else 2
    for variant, compare, export, inv in (("model", True, "Export", ("Total",)), ("all", False, "ExportInputs", ())):
        r = gen.run_focus(chk, "MC_Attr", f"attr-{variant}", max_top=top if variant == "all" else 2, invariants=inv, export=export,
                          extra_constants={"Variant": f'"{variant}"'}, timeout=6000)
        if r is None:
            continue
        try:
            gen.replay_file(chk, r.workdir / "out.ndjson", "harness.c05", "judge", {"compare": compare})
        finally:
            r.cleanup()
    return chk.finish()


def replay_file(path: str) -> int:
    import json
    d = json.load(open(path))
    rec = d["record"]["record"] if "record" in d["record"] else d["record"]
    res = judge(rec, {"compare": True})
    print(rec["templates"])
    for r in res:
        print(r)
    return 1 if res else 0
