#!/venv/bin/python
"""Show that the binding between specification and code bites (DESIGN.md section 4.4).

Nothing here touches /repo.  Each case takes something the machinery accepts on the unchanged
tree, corrupts ONE recorded field or ONE expected value, and requires the rejection:
  C->S  a recorded token trace with a token end moved, a token dropped, an outcome turned
        into a non-Liquid exception            -> Trace_Tokens must reject with the right clause
  S->C  an exported behaviour whose expected output is altered -> the replay must flag it
  spec  the named deviations of LiquidHistory / LiquidPaths     -> TLC must refute the invariant
Exit 0 if every corruption is rejected and every original accepted; 1 otherwise.
usage: harness/selftest.py
"""
from __future__ import annotations

import json
import os
import shutil
import sys
from pathlib import Path

sys.path.insert(0, str(Path(__file__).resolve().parent.parent))
os.environ.setdefault("PYTHONHASHSEED", "0")
os.environ.setdefault("VERIF_EVIDENCE", str(Path(__file__).resolve().parent.parent / ".cache" / "selftest-evidence"))

from harness import c01, gen, tlc, tracecheck as tc  # noqa: E402
from harness.common import SCRATCH, Check  # noqa: E402

FAILED = []


def expect(cond: bool, what: str) -> None:
    print(("ok   " if cond else "FAIL ") + what)
    if not cond:
        FAILED.append(what)


def traces() -> None:
    chk = Check("C17", "quick")
    srcs = ["a{{ x.y | upcase }}b", "{% if x %}1{% else %}2{% endif %}", "{{ 'a${x}b' }}", "{{ (1..3) | first }}"]
    out = SCRATCH / f"selftest-{os.getpid()}"
    shutil.rmtree(out, ignore_errors=True)
    shards = tc.record_sources(tc.as_lines(srcs, "self"), out)
    good = [json.loads(l) for l in shards[0].read_text().splitlines()]
    cases = []
    for i, tr in enumerate(good):
        cases.append(("original", tr))
        t1 = json.loads(json.dumps(tr)); t1["id"] += "-end"; t1["tok"]["tokens"][0]["b"] += 1
        cases.append(("token end moved", t1))
        t2 = json.loads(json.dumps(tr)); t2["id"] += "-drop"; del t2["tok"]["tokens"][0]
        cases.append(("token dropped", t2))
        t3 = json.loads(json.dumps(tr)); t3["id"] += "-exc"; t3["render"] = {"kind": "nonliquid", "cls": "KeyError@x", "probe": "", "haspos": False, "pos": 0}
        cases.append(("non-Liquid exception", t3))
    p = out / "corrupt.ndjson"
    p.write_text("\n".join(json.dumps(t) for _, t in cases) + "\n")
    bad = {b["trace"]["id"]: b["clause"] for b in tc.validate(chk, [p], "selftest")}
    shutil.rmtree(out, ignore_errors=True)
    for kind, t in cases:
        if kind == "original":
            expect(t["id"] not in bad, f"C->S accepts the recorded trace {t['id']}")
        else:
            expect(t["id"] in bad, f"C->S rejects '{kind}' in {t['id']} ({bad.get(t['id'])})")
    expect(chk.machinery_error is None, "trace validation ran without machinery error")


def replays() -> None:
    chk = Check("C01", "quick")
    r = gen.run_focus(chk, "MC_Flow", "flow", max_top=1)
    recs = [json.loads(l) for l in (r.workdir / "out.ndjson").read_text().splitlines()[:200]]
    r.cleanup()
    ok_recs = [x for x in recs if x["expect"]["ok"]][:20]
    expect(all(not c01.judge(x, {}) for x in ok_recs), "S->C accepts 20 exported behaviours as they are")
    flagged = 0
    for x in ok_recs:
        y = json.loads(json.dumps(x)); y["expect"]["out"] += "!"
        flagged += bool(c01.judge(y, {}))
    expect(flagged == len(ok_recs), f"S->C flags all {len(ok_recs)} behaviours whose expected text was altered")
    flagged = 0
    for x in ok_recs:
        y = json.loads(json.dumps(x)); y["expect"] = {"ok": False, "err": "LiquidTypeError", "out": ""}
        flagged += bool(c01.judge(y, {}))
    expect(flagged == len(ok_recs), "S->C flags an expected error where the library succeeds")


def lexer_machine() -> None:
    """The token lists of LiquidLexer.tla bind: an expectation moved by one character, a marker changed, a token kind
    swapped or an accepted source declared an error is flagged by the replay."""
    from harness import lexer
    r = tlc.run("LiquidLexer", tlc.cfg_text(constants={"Alphabet": "<- AMarkupSmall", "MaxLen": "3", "Prefix": "<- Empty", "Suffix": "<- Empty",
                                                       "Focus": '"selftest"', "Shorthand": "FALSE"},
                                            invariants=lexer.INVARIANTS, properties=["Progress"]), tag="selftest-lexer", timeout=1200)
    expect(r.error is None and not r.invariant_violated, "TLC checks the lexer machine (PointersOK, PrefixTiling, Nested, FinalTiling, WcShape, Progress)")
    recs = [json.loads(l) for l in (r.workdir / "out.ndjson").read_text().splitlines()]
    r.cleanup()
    expect(all(not lexer.judge(x, {}) for x in recs), f"S->C accepts the {len(recs)} token lists of the machine as they are")
    done = [x for x in recs if x["outcome"] == "done" and x["toks"]]
    marked = [x for x in done if any(t["wc"] for t in x["toks"])][:40]
    for what, edit in (("a token end moved", lambda y: y["toks"][-1].__setitem__("b", y["toks"][-1]["b"] - 1)),
                       ("a token kind swapped", lambda y: y["toks"][0].__setitem__("k", "RawToken" if y["toks"][0]["k"] != "RawToken" else "ContentToken")),
                       ("an accepted source declared an error", lambda y: y.__setitem__("outcome", "error"))):
        flagged = 0
        for x in done[:40]:
            y = json.loads(json.dumps(x)); edit(y)
            flagged += bool(lexer.judge(y, {}))
        expect(flagged == len(done[:40]), f"S->C flags {what} in all {len(done[:40])} token lists")
    flagged = 0
    for x in marked:
        y = json.loads(json.dumps(x))
        t = next(t for t in y["toks"] if t["wc"])
        t["wc"][0] = "~" if t["wc"][0] != "~" else ""
        flagged += bool(lexer.judge(y, {}))
    expect(bool(marked) and flagged == len(marked), f"S->C flags a changed whitespace-control marker in all {len(marked)} token lists that carry one")
    errs = [x for x in recs if x["outcome"] == "error"][:40]
    flagged = 0
    for x in errs:
        y = json.loads(json.dumps(x)); y["outcome"] = "done"; y["toks"] = []
        flagged += bool(lexer.judge(y, {}))
    expect(bool(errs) and flagged == len(errs), f"S->C flags a rejected source declared accepted ({len(errs)} cases)")


def deviations() -> None:
    for dev, kinds, sched in (("DateMemo", '{"call", "tick"}', "0"), ("PartialMemo", '{"call", "edit"}', "0"), ("SharedNode", '{"pair"}', "3"), ("SharedLoader", '{"call"}', "0")):
        r = tlc.run("LiquidHistory", tlc.cfg_text(constants={"MaxOps": "3", "MaxFault": "0", "Dev": '{"%s"}' % dev, "Focus": '"h"', "Kinds": kinds,
                                                             "MaxSched": sched, "TSet": "{}", "DSet": "{}", "ESet": "{1, 2, 3}"}, invariants=["HistoryIndependent"]),
                    tag="selftest-history", timeout=1200)
        expect(bool(r.invariant_violated), f"TLC refutes HistoryIndependent under the deviation {dev}")
        r.cleanup()
    for dev in ("NoParentCheck", "AbsoluteJoin"):
        r = tlc.run("LiquidPaths", tlc.cfg_text(constants={"Segs": '{"a.txt", "..", "r1", "secret.txt", "r1x"}', "MaxSeg": "3", "Roots": "<- Roots1",
                                                           "Ext": '""', "Dev": '{"%s"}' % dev, "Focus": '"p"'}, invariants=["Confined"]),
                    tag="selftest-paths", timeout=1200)
        expect(bool(r.invariant_violated), f"TLC refutes Confined under the deviation {dev}")
        r.cleanup()


def main() -> int:
    traces()
    replays()
    lexer_machine()
    deviations()
    print(f"{'SELFTEST FAILED: ' + str(len(FAILED)) if FAILED else 'selftest passed'}")
    return 1 if FAILED else 0


if __name__ == "__main__":
    sys.exit(main())
