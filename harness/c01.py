"""C01 - rendering implements the documented Liquid semantics.

TLC enumerates every program of each focus configuration (LiquidGen over the pools of
spec/MC_*.tla), renders it with the reference semantics LiquidSem under every data set and
configuration of the focus, and exports template text + data + expected result; each
exported behaviour is rendered by the library and must give the same text / error class.
"""
from __future__ import annotations

import re

from . import gen, replay
from .common import Check

FOCUSES = [
    # module, focus name, extra constants, quick MaxTop, thorough MaxTop
    ("MC_Flow", "flow", {}, 1, 2),
    ("MC_Loops", "loops-single", {"Variant": '"single"'}, 1, 1),
    ("MC_Loops", "loops-pairs", {"Variant": '"pairs"'}, 2, 3),
    ("MC_Loops", "loops-triples", {"Variant": '"triples"'}, 3, 4),
    ("MC_Bool", "bool", {"Variant": '"ops"'}, 1, 1),
    ("MC_Bool", "bool-trees", {"Variant": '"trees"'}, 1, 1),
    ("MC_Sites", "sites", {}, 3, 3),
    ("MC_Exprs", "exprs", {}, 1, 2),
    ("MC_Lambda", "lambda", {}, 4, 4),
    ("MC_Loops", "loops-nest", {"Variant": '"nest"'}, 2, 2),
    ("MC_Scopes", "scopes", {}, 2, 3),
    ("MC_Trim", "trim-markers", {"Variant": '"markers"'}, 3, 4),
    ("MC_Trim", "trim-capture", {"Variant": '"capture"'}, 4, 5),
    ("MC_Trim", "trim-blank", {"Variant": '"blank"'}, 4, 5),
    ("MC_Cycles", "cycles", {}, 3, 4),
    ("MC_Short", "short", {}, 2, 3),
]

_TAG = re.compile(r"\{%[-+~]?\s*(\w+)")


def constructs(rec) -> str:
    names = set()
    for _, text in rec["templates"][:1]:
        names.update(_TAG.findall(text))
        if "{{" in text:
            names.add("output")
    return ",".join(sorted(n for n in names if not n.startswith("end")))


def judge(rec, opts):
    got, extras = replay.render_record(rec)
    f = replay.compare(rec, got)
    if f is None:
        return []
    return [(f"{rec['focus']}:{f['clause']}:{constructs(rec)}", f)]


def check(tier: str) -> int:
    chk = Check("C01", tier)
    chk.assumptions += ["the reference semantics LiquidSem.tla is a faithful reading of the documentation "
                        "(calibrated against the golden compliance suite)",
                        "constructs listed in spec/UNSPECIFIED.md are outside the generated space",
                        "TLC, Json/IOUtils modules, CPython"]
    for module, name, consts, q, t in FOCUSES:
        r = gen.run_focus(chk, module, name, max_top=t if tier == "thorough" else q,
                          extra_constants=consts, timeout=6000)
        if r is None:
            continue
        try:
            gen.replay_file(chk, r.workdir / "out.ndjson", "harness.c01", "judge")
        finally:
            r.cleanup()
    return chk.finish()


def replay_file(path: str) -> int:
    import json
    d = json.load(open(path))
    rec = d["record"].get("record")
    if rec is None:
        print("\n".join(d["record"].get("trace", [])))
        return 1
    got, extras = replay.render_record(rec)
    f = replay.compare(rec, got)
    print("templates:", rec["templates"])
    print("data:", rec["data"], "cfg:", rec["cfg"])
    print("expected:", rec["expect"])
    print("got:", got)
    if f:
        print(f"VIOLATION property=C01 replay={path}")
        return 1
    print("conforms")
    return 0
