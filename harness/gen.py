"""Run a focus configuration of LiquidGen through TLC and replay what it exports."""
from __future__ import annotations

import hashlib
import json
import os
from concurrent.futures import ProcessPoolExecutor
from pathlib import Path

from . import tlc
from .common import VERIF, Check, seed, workers

CONCRETE = (VERIF / "spec" / "concrete.json").read_text()


def run_focus(chk: Check, module: str, focus: str, *, max_top: int, invariants=("Total",),
              simulate: str | None = None, depth: int | None = None, extra_constants=None,
              timeout: int = 3000, export: str = "Export"):
    """Model-check one focus; returns the TlcRun (caller must cleanup()) or None."""
    consts = {"PoolAt": "<- MCPoolAt", "DataSets": "<- MCData", "Cfgs": "<- MCCfgs",
              "MaxTop": str(max_top), "Focus": f'"{focus}"', "Partials": "<- MCPartials"}
    consts.update(extra_constants or {})
    cfg = tlc.cfg_text(constants=consts, invariants=[export, *invariants])
    r = tlc.run(module, cfg, tag=f"{module}-{focus}", simulate=simulate, depth=depth,
                seed=seed() if simulate else None, timeout=timeout,
                extra_files={"concrete.json": CONCRETE})
    if r.error:
        chk.machinery_error = r.error
        r.cleanup()
        return None
    if r.invariant_violated or r.deadlock:
        chk.spec_violation(r, f"{module}:{focus}")
        r.cleanup()
        return None
    chk.tlc(r, f"focus {focus} (MaxTop={max_top}{', simulate ' + simulate if simulate else ''})")
    if simulate:
        chk.cov["exhaustive"] = False
    return r


def _split(path: Path, n: int) -> list[tuple[int, int]]:
    size = path.stat().st_size
    if size == 0:
        return []
    step = max(1, size // n)
    cuts = [0]
    with path.open("rb") as fd:
        pos = step
        while pos < size:
            fd.seek(pos)
            fd.readline()
            p = fd.tell()
            if p >= size:
                break
            if p > cuts[-1]:
                cuts.append(p)
            pos = p + step
    cuts.append(size)
    return [(cuts[i], cuts[i + 1]) for i in range(len(cuts) - 1) if cuts[i + 1] > cuts[i]]


def _worker(args):
    path, start, end, fn_mod, fn_name, opts = args
    import importlib
    fn = getattr(importlib.import_module(fn_mod), fn_name)
    fails, n, samples, keys = [], 0, [], set()
    with open(path, "rb") as fd:
        fd.seek(start)
        while fd.tell() < end:
            line = fd.readline()
            if not line.strip():
                continue
            rec = json.loads(line)
            n += 1
            try:
                res = fn(rec, opts)
            except BaseException as e:  # noqa: BLE001
                res = [("harness-exception:" + type(e).__name__, {"msg": str(e)[:300]})]
            key = hashlib.sha1(line).hexdigest()[:16]
            keys.add(key)
            if len(samples) < 2:
                samples.append({k: rec[k] for k in ("templates", "data", "cfg", "expect") if k in rec})
            for sig, detail in res or []:
                if len(fails) < 200:
                    fails.append((sig, rec, detail))
    return n, fails, samples, len(keys)


def replay_file(chk: Check, path: Path, fn_mod: str, fn_name: str, opts: dict | None = None) -> int:
    """Replay every record of an ndjson file in parallel with `fn(rec, opts) -> [(signature, detail)]`."""
    parts = _split(path, workers() * 4)
    total = 0
    if not parts:
        return 0
    jobs = [(str(path), a, b, fn_mod, fn_name, opts or {}) for a, b in parts]
    with ProcessPoolExecutor(workers()) as ex:
        for n, fails, samples, nkeys in ex.map(_worker, jobs):
            total += n
            chk.cov["evaluations"] += n
            chk.add_distinct(nkeys)
            for s in samples:
                if len(chk.cov["samples"]) < 6:
                    chk.cov["samples"].append(s)
            for sig, rec, detail in fails:
                chk.violation(sig, {"record": rec, "failure": detail})
    chk.validated(total)
    return total
