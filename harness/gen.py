"""Run a focus configuration of LiquidGen through TLC and replay what it exports."""
from __future__ import annotations

import hashlib
import json
import os
from concurrent.futures import ProcessPoolExecutor
from pathlib import Path

from . import tlc
from .common import VERIF, Check, seed, workers

CONCRETE = (VERIF / "spec" / "concrete.json").read_text()


def run_focus(chk: Check, module: str, focus: str, *, max_top: int, invariants=("Total",),
              simulate: str | None = None, depth: int | None = None, extra_constants=None,
              timeout: int = 3000, export: str = "Export"):
    """Model-check one focus; returns the TlcRun (caller must cleanup()) or None."""
    consts = {"PoolAt": "<- MCPoolAt", "DataSets": "<- MCData", "Cfgs": "<- MCCfgs",
              "MaxTop": str(max_top), "Focus": f'"{focus}"', "Partials": "<- MCPartials"}
    consts.update(extra_constants or {})
    cfg = tlc.cfg_text(constants=consts, invariants=[export, *invariants])
    r = tlc.run(module, cfg, tag=f"{module}-{focus}", simulate=simulate, depth=depth,
                seed=seed() if simulate else None, timeout=timeout,
                extra_files={"concrete.json": CONCRETE})
    if r.error:
        chk.machinery_error = r.error
        r.cleanup()
        return None
    if r.invariant_violated or r.deadlock:
        chk.spec_violation(r, f"{module}:{focus}")
        r.cleanup()
        return None
    chk.tlc(r, f"focus {focus} (MaxTop={max_top}{', simulate ' + simulate if simulate else ''})")
    if simulate:
        chk.cov["exhaustive"] = False
    return r


def _split(path: Path, n: int) -> list[tuple[int, int]]:
    size = path.stat().st_size
    if size == 0:
        return []
    step = max(1, size // n)
    cuts = [0]
    with path.open("rb") as fd:
        pos = step
        while pos < size:
            fd.seek(pos)
            fd.readline()
            p = fd.tell()
            if p >= size:
                break
            if p > cuts[-1]:
                cuts.append(p)
            pos = p + step
    cuts.append(size)
    return [(cuts[i], cuts[i + 1]) for i in range(len(cuts) - 1) if cuts[i + 1] > cuts[i]]


def _worker(args):
    path, start, end, fn_mod, fn_name, opts = args
    import importlib
    fn = getattr(importlib.import_module(fn_mod), fn_name)
    fails, n, samples, keys = [], 0, [], set()
    # watched replays: where this worker is (process, record offset, time) for the parent's watchdog,
    # and the records already known to hang
    beat = opts.get("_beat")
    skip = set(opts.get("_skip") or ())
    if beat:
        import time
        beat = os.path.join(beat, str(start))
    with open(path, "rb") as fd:
        fd.seek(start)
        while fd.tell() < end:
            at = fd.tell()
            line = fd.readline()
            if not line.strip():
                continue
            if at in skip:
                continue
            if beat:
                with open(beat, "w") as hb:
                    hb.write(f"{os.getpid()} {at} {time.time()}")
            rec = json.loads(line)
            n += 1
            try:
                res = fn(rec, opts)
            except BaseException as e:  # noqa: BLE001
                res = [("harness-exception:" + type(e).__name__, {"msg": str(e)[:300]})]
            key = hashlib.sha1(line).hexdigest()[:16]
            keys.add(key)
            if len(samples) < 2:
                samples.append({k: rec[k] for k in ("templates", "data", "cfg", "expect") if k in rec})
            for sig, detail in res or []:
                if len(fails) < 200:
                    fails.append((sig, rec, detail))
    if beat:
        try:
            os.unlink(beat)
        except OSError:
            pass
    return n, fails, samples, len(keys)


def replay_file(chk: Check, path: Path, fn_mod: str, fn_name: str, opts: dict | None = None) -> int:
    """Replay every record of an ndjson file in parallel with `fn(rec, opts) -> [(signature, detail)]`."""
    parts = _split(path, workers() * 4)
    total = 0
    if not parts:
        return 0
    if (opts or {}).get("_hang_s"):
        return _replay_watched(chk, path, parts, fn_mod, fn_name, dict(opts))
    jobs = [(str(path), a, b, fn_mod, fn_name, opts or {}) for a, b in parts]
    with ProcessPoolExecutor(workers()) as ex:
        for n, fails, samples, nkeys in ex.map(_worker, jobs):
            total += n
            chk.cov["evaluations"] += n
            chk.add_distinct(nkeys)
            for s in samples:
                if len(chk.cov["samples"]) < 6:
                    chk.cov["samples"].append(s)
            for sig, rec, detail in fails:
                chk.violation(sig, {"record": rec, "failure": detail})
    chk.validated(total)
    return total


def _replay_watched(chk: Check, path: Path, parts, fn_mod: str, fn_name: str, opts: dict) -> int:
    """replay_file under a watchdog: a record whose evaluation does not return within opts["_hang_s"] seconds
    (a C-level loop cannot be interrupted from inside the process) is reported as `hang`, its worker is killed,
    and the unfinished parts are replayed again without it."""
    import shutil
    import tempfile
    import time
    from concurrent.futures import wait, FIRST_COMPLETED
    from .common import SCRATCH
    hang_s = opts.pop("_hang_s")
    SCRATCH.mkdir(parents=True, exist_ok=True)
    beatdir = tempfile.mkdtemp(prefix="beat-", dir=SCRATCH)
    pending = list(parts)
    skip: set = set()
    total = hangs = 0
    try:
        while pending:
            ex = ProcessPoolExecutor(workers())
            futs = {ex.submit(_worker, (str(path), a, b, fn_mod, fn_name, dict(opts, _beat=beatdir, _skip=sorted(skip)))): (a, b) for a, b in pending}
            done_parts = set()
            killed = False
            live = set(futs)
            while live and not killed:
                done, live = wait(live, timeout=2, return_when=FIRST_COMPLETED)
                for f in done:
                    try:
                        n, fails, samples, nkeys = f.result()
                    except Exception:  # noqa: BLE001     (the pool broke: replayed in the next round)
                        continue
                    done_parts.add(futs[f])
                    total += n
                    chk.cov["evaluations"] += n
                    chk.add_distinct(nkeys)
                    for smp in samples:
                        if len(chk.cov["samples"]) < 6:
                            chk.cov["samples"].append(smp)
                    for sig, rec, detail in fails:
                        chk.violation(sig, {"record": rec, "failure": detail})
                now = time.time()
                for name in os.listdir(beatdir):
                    try:
                        pid, at, t = open(os.path.join(beatdir, name)).read().split()
                    except (OSError, ValueError):
                        continue
                    if now - float(t) > hang_s:
                        with open(path, "rb") as fd:
                            fd.seek(int(at))
                            rec = json.loads(fd.readline())
                        hangs += 1
                        chk.violation(f"hang:{rec.get('focus', '')}", {"record": rec, "failure": {"seconds": round(now - float(t)), "note": "evaluation did not return"}})
                        skip.add(int(at))
                        try:
                            os.kill(int(pid), 9)
                        except OSError:
                            pass
                        killed = True
            for proc in list(getattr(ex, "_processes", {}).values()):
                try:
                    proc.kill()
                except Exception:  # noqa: BLE001
                    pass
            ex.shutdown(wait=False, cancel_futures=True)
            for name in os.listdir(beatdir):
                try:
                    os.unlink(os.path.join(beatdir, name))
                except OSError:
                    pass
            pending = [p for p in pending if p not in done_parts]
            if hangs >= 6:
                break       # enough said; the rest of this file is not replayed
    finally:
        shutil.rmtree(beatdir, ignore_errors=True)
    chk.validated(total)
    return total
