"""C04 - auto-escape: untrusted data never reaches the output unescaped.

The reference semantics carries a taint bit on every string (LiquidValues: `safe`, the
Markup of markupsafe) through literals, captures, filters and output sites.  TLC checks on it
(invariant NoRawUnsafe of LiquidGen) that for every program of the escape focus - data
saturated with < > & ' ", also percent- and entity-encoded, nested in arrays and hashes, used as
filter arguments and separators, flowing through filter chains, captures, partials, macros,
loops, cycles, template strings and ternaries - the output contains no HTML-significant
character outside the entities and the markup the engine writes itself.  The exported
behaviours are rendered by the library with auto-escape on, which must produce exactly the
model's text (variant "model": the filters of the reference), and - for every built-in filter,
also those the reference does not predict (variant "all", inputs only) - an output that passes
the same scan.
"""
from __future__ import annotations

import re

from . import gen, replay
from .common import Check

ENTITY = re.compile(r"&(amp|lt|gt|#39|#34|quot|#x27);", re.I)
ENGINE = re.compile(r"<br />|<tr class=\"row\d+\">|</tr>|<td class=\"col\d+\">|</td>")


def raw_leak(out: str) -> str | None:
    """The first HTML-significant character of `out` that is neither part of an entity nor
    of markup the engine writes.  The programs' literals contain none, `safe` is not used, so
    such a character came from the data.  (A `&` counts when it is followed by the `!` that
    follows every `&` of the data: an entity cut short by truncate/slice is the engine's own.)"""
    s = ENGINE.sub("", ENTITY.sub("", out))
    for i, ch in enumerate(s):
        if ch in "<>'\"":
            return ch
        if ch == "&" and s[i + 1:i + 2] in ("!", "<", ">", "'", '"'):
            return "&"
    return None


def filters_of(rec) -> str:
    src = dict((n, t) for n, t in rec["templates"])[rec["main"]]
    names = re.findall(r"\|\s*([a-z_0-9]+)", src)
    tags = re.findall(r"\{%-?\s*([a-z]+)", src)
    return "|".join(names[:3]) + ("/" + ",".join(sorted(set(tags))) if tags else "")


def judge(rec, opts):
    got, _ = replay.render_record(rec)
    out = []
    if got["ok"]:
        leak = raw_leak(got["out"])
        if leak is not None:
            out.append((f"raw-{leak}:{filters_of(rec)}", {"got": got["out"]}))
    if opts.get("compare"):
        f = replay.compare(rec, got)
        if f is not None and not out:
            out.append((f"{rec['focus']}:{f['clause']}:{filters_of(rec)}", f))
    return out


def judge_msg(rec, opts):
    """The message templates of LiquidMsg.tla (translate tags with data-supplied message variables,
    translation filters on data) rendered with auto-escape on and hostile data."""
    from liquid2 import Environment
    from liquid2.exceptions import LiquidError
    env = opts.get("_env")
    if env is None:
        env = opts["_env"] = Environment(auto_escape=True)
    evil = "<b a='1'&!c=\"2\">"
    try:
        out = env.from_string(rec["src"]).render(m=evil, pl="<p>&!" + evil, cx=evil, n=2, yes=True, no=False)
    except LiquidError:
        return []
    leak = raw_leak(out)
    if leak is not None:
        kinds = "+".join(f"{it['k']}:{it['f']}:{it['site']}" for it in rec["items"])[:80]
        return [(f"raw-{leak}:translate:{kinds}", {"src": rec["src"], "got": out})]
    return []


def _judge_msg(rec, opts):
    return judge_msg(rec, _OPTS)


_OPTS: dict = {}


def check(tier: str) -> int:
    chk = Check("C04", tier)
    chk.assumptions += ["template literals contain no HTML-significant character and `safe` is not used (the property's quantifier)",
                        "markupsafe's escape is the escaping function (its entity spellings are the model's)",
                        "a cut-off entity (truncate/slice of an escaped text) is the engine's own text",
                        "TLC, Json/IOUtils modules, CPython"]
    top = 1 if tier == "quick" else 2
    r = gen.run_focus(chk, "MC_Escape", "escape-model", max_top=2, invariants=("Total", "NoRawUnsafe"),
                      extra_constants={"Variant": '"model"'}, timeout=6000)
    if r is not None:
        try:
            gen.replay_file(chk, r.workdir / "out.ndjson", "harness.c04", "judge", {"compare": True})
        finally:
            r.cleanup()
    r = gen.run_focus(chk, "MC_Escape", "escape-all", max_top=top, invariants=(), export="ExportInputs",
                      extra_constants={"Variant": '"all"'}, timeout=6000)
    if r is not None:
        try:
            gen.replay_file(chk, r.workdir / "out.ndjson", "harness.c04", "judge", {"compare": False})
        finally:
            r.cleanup()
    from . import tlc
    for variant in ("tags", "filters"):
        r = tlc.run("LiquidMsg", tlc.cfg_text(constants={"MaxTop": "1", "Focus": f'"escape-msg-{variant}"', "Variant": f'"{variant}"'},
                                              invariants=["Export"]), tag=f"escape-msg-{variant}", timeout=3000)
        try:
            if r.error:
                chk.machinery_error = r.error
                continue
            chk.tlc(r, f"message templates under auto-escape ({variant})")
            gen.replay_file(chk, r.workdir / "out.ndjson", "harness.c04", "_judge_msg")
        finally:
            r.cleanup()
    return chk.finish()


def replay_file(path: str) -> int:
    import json
    d = json.load(open(path))
    rec = d["record"]["record"] if "record" in d["record"] else d["record"]
    if "items" in rec:
        res = judge_msg(rec, {})
        print(rec["src"], res)
        return 1 if res else 0
    got, _ = replay.render_record(rec)
    print(rec["templates"], rec["data"])
    print("got:", got)
    return 1 if (got["ok"] and raw_leak(got["out"])) else 0
