"""Run TLC on a module of /verif/spec and collect statistics.

Everything lives under /verif/.cache/run/<tag>-<pid>/ (never /tmp): a copy of the
spec directory, the generated cfg, TLC's metadir and the files the spec writes with
IOUtils!Serialize. The directory is removed by the caller (`TlcRun.cleanup()`).
"""
from __future__ import annotations

import json
import os
import re
import shutil
import subprocess
import time
from dataclasses import dataclass, field
from pathlib import Path

VERIF = Path(__file__).resolve().parent.parent
SPEC = VERIF / "spec"
CACHE = VERIF / ".cache"
JAR = "/opt/veriftools/tla/tla2tools.jar:/opt/veriftools/tla/CommunityModules-deps.jar"


class TlcError(RuntimeError):
    """The machinery (not the property) failed."""


@dataclass
class TlcRun:
    tag: str
    workdir: Path
    rc: int = 0
    stdout: str = ""
    wall_s: float = 0.0
    generated: int = 0
    distinct: int = 0
    depth: int = 0
    invariant_violated: str | None = None
    deadlock: bool = False
    error: str | None = None
    coverage: dict[str, tuple[int, int]] = field(default_factory=dict)
    trace: list[str] = field(default_factory=list)

    def out_lines(self, name: str = "out.ndjson"):
        p = self.workdir / name
        if not p.exists():
            return
        with p.open(encoding="utf-8") as fd:
            for line in fd:
                line = line.strip()
                if line:
                    yield json.loads(line)

    def cleanup(self) -> None:
        shutil.rmtree(self.workdir, ignore_errors=True)


def cfg_text(
    *,
    constants: dict[str, str] | None = None,
    init: str = "Init",
    next: str = "Next",
    specification: str | None = None,
    invariants: list[str] | None = None,
    properties: list[str] | None = None,
    constraints: list[str] | None = None,
    action_constraints: list[str] | None = None,
    view: str | None = None,
    postcondition: str | None = None,
    check_deadlock: bool = False,
    symmetry: str | None = None,
) -> str:
    out = []
    if specification:
        out.append(f"SPECIFICATION {specification}")
    else:
        out.append(f"INIT {init}")
        out.append(f"NEXT {next}")
    if constants:
        out.append("CONSTANTS")
        for k, v in constants.items():
            out.append(f"  {k} = {v}" if not v.startswith("<-") else f"  {k} {v}")
    for inv in invariants or []:
        out.append(f"INVARIANT {inv}")
    for p in properties or []:
        out.append(f"PROPERTY {p}")
    for c in constraints or []:
        out.append(f"CONSTRAINT {c}")
    for c in action_constraints or []:
        out.append(f"ACTION_CONSTRAINT {c}")
    if view:
        out.append(f"VIEW {view}")
    if symmetry:
        out.append(f"SYMMETRY {symmetry}")
    if postcondition:
        out.append(f"POSTCONDITION {postcondition}")
    out.append(f"CHECK_DEADLOCK {'TRUE' if check_deadlock else 'FALSE'}")
    return "\n".join(out) + "\n"


_RE_STATES = re.compile(
    r"(\d+) states generated, (\d+) distinct states found, (\d+) states left on queue"
)
_RE_DEPTH = re.compile(r"The depth of the complete state graph search is (\d+)")
_RE_INV = re.compile(r"Error: Invariant (\S+) is violated")
_RE_PROP = re.compile(r"Error: (?:Action|Temporal) propert(?:y|ies) (.*?) (?:is|were) violated")
_RE_COV = re.compile(r"^<(\w+) line (\d+), col \d+ to line \d+, col \d+ of module (\w+)(?: \([\d ]+\))?>: (\d+):(\d+)")


def run(
    module: str,
    cfg: str,
    *,
    tag: str | None = None,
    workers: int | str = 16,
    env: dict[str, str] | None = None,
    timeout: int = 3600,
    simulate: str | None = None,
    depth: int | None = None,
    seed: int | None = None,
    coverage: bool = False,
    dfs_queue: bool = False,
    heap: str = "8g",
    extra_files: dict[str, str] | None = None,
) -> TlcRun:
    """Run TLC on spec/<module>.tla with the given cfg text."""
    tag = tag or module
    workdir = CACHE / "run" / f"{tag}-{os.getpid()}-{int(time.time() * 1000) % 10**9}"
    if workdir.exists():
        shutil.rmtree(workdir)
    workdir.mkdir(parents=True)
    for f in SPEC.glob("*.tla"):
        shutil.copy(f, workdir / f.name)
    (workdir / f"{module}.cfg").write_text(cfg)
    for name, text in (extra_files or {}).items():
        (workdir / name).write_text(text, encoding="utf-8")
    (workdir / "jtmp").mkdir()
    jopts = [f"-Xmx{heap}", "-Xss64m", "-XX:+UseParallelGC", f"-Djava.io.tmpdir={workdir / 'jtmp'}"]
    if dfs_queue:
        jopts.append("-Dtlc2.tool.queue.IStateQueue=StateDeque")
    cmd = ["java", *jopts, "-cp", JAR, "tlc2.TLC", "-metadir", str(workdir / "meta"),
           "-noGenerateSpecTE", "-workers", str(workers), "-config", f"{module}.cfg"]
    if simulate is not None:
        cmd += ["-simulate", simulate]
    if depth is not None:
        cmd += ["-depth", str(depth)]
    if seed is not None:
        cmd += ["-seed", str(seed)]
    if coverage:
        cmd += ["-coverage", "1"]
    cmd.append(f"{module}.tla")
    e = dict(os.environ)
    e.pop("JAVA_TOOL_OPTIONS", None)
    e["OUT_FILE"] = str(workdir / "out.ndjson")
    e["WORKDIR"] = str(workdir)
    e.update(env or {})
    t0 = time.time()
    try:
        p = subprocess.run(cmd, cwd=workdir, env=e, capture_output=True, text=True,
                           timeout=timeout)
        out, rc = p.stdout + p.stderr, p.returncode
    except subprocess.TimeoutExpired as err:
        out = (err.stdout or b"").decode() if isinstance(err.stdout, bytes) else (err.stdout or "")
        rc = -9
    r = TlcRun(tag=tag, workdir=workdir, rc=rc, stdout=out, wall_s=time.time() - t0)
    for m in _RE_STATES.finditer(out):
        r.generated, r.distinct = int(m.group(1)), int(m.group(2))
    m = _RE_DEPTH.search(out)
    if m:
        r.depth = int(m.group(1))
    m = _RE_INV.search(out)
    if m:
        r.invariant_violated = m.group(1)
    m = _RE_PROP.search(out)
    if m:
        r.invariant_violated = m.group(1)
    r.deadlock = "Deadlock reached" in out
    for line in out.splitlines():
        m = _RE_COV.match(line)
        if m:
            k = f"{m.group(3)}!{m.group(1)}"      # (an action that appears in several disjuncts of Next is reported once per disjunct)
            a0, b0 = r.coverage.get(k, (0, 0))
            r.coverage[k] = (a0 + int(m.group(4)), b0 + int(m.group(5)))
    if r.invariant_violated or r.deadlock:
        keep = False
        for line in out.splitlines():
            if line.startswith("Error:"):
                keep = True
            if keep:
                r.trace.append(line)
    if re.search(r"Error: Assumption .* is false", out):
        r.error = f"TLC failed [{tag}]: " + re.search(r"Error: Assumption .* is false", out).group(0)
        return r
    ok_end = "Model checking completed" in out or "Finished in" in out or simulate is not None
    if rc not in (0, 12, 13, 10, 11) or (not ok_end and not r.invariant_violated and not r.deadlock):
        if rc == -9:
            r.error = f"TLC timed out after {timeout}s"
        elif not (r.invariant_violated or r.deadlock):
            i = out.find("Error:")
            j = max(out.find("***Parse Error"), out.find("Semantic errors"), out.find("*** Errors"))
            r.error = f"TLC failed [{tag}]:\n" + (out[j:j + 1500] + "\n" if j >= 0 else "") + (out[i:i + 4000] if i >= 0 else out[-4000:])
    return r


def require_ok(r: TlcRun) -> TlcRun:
    if r.error:
        raise TlcError(f"[{r.tag}] {r.error}")
    return r


def sany(module: str) -> None:
    import tempfile
    CACHE.mkdir(parents=True, exist_ok=True)
    tmp = Path(tempfile.mkdtemp(prefix="sany-", dir=CACHE))
    p = subprocess.run(["java", f"-Djava.io.tmpdir={tmp}", "-cp", JAR, "tla2sany.SANY", f"{module}.tla"], cwd=SPEC,
                       capture_output=True, text=True)
    shutil.rmtree(tmp, ignore_errors=True)
    if p.returncode != 0 or "*** Errors" in p.stdout or "Fatal" in p.stdout:
        raise TlcError(f"SANY failed for {module}:\n{p.stdout[-3000:]}")
