"""C03 - async rendering is observationally identical to sync rendering.

(a) every behaviour of the generated focuses (programs enumerated by TLC; data incl. ordinal
    drops that make the number of evaluations visible; partials in sub-directories served by
    a loader whose async path really suspends) is rendered with render() and render_async()
    (coroutine stepped by hand) - same text, or same error class at the same template name;
    get_template / get_template_async and analyze / analyze_async are compared likewise;
(b) TLC enumerates every interleaving of K concurrent tasks' await points (LiquidAsync.tla,
    ScheduleIndependent checked on the model); each schedule is replayed on real coroutines
    over shared Environment / loader / templates and every task must produce its solo output.
"""
from __future__ import annotations

import copy
import itertools
import json

from . import gen, replay, tlc
from .c01 import constructs
from .common import Check


from .sched import drive, pause, run_schedule, run_solo


def make_async_loader(templates: dict):
    """A loader whose async path suspends once per load and whose sync path does not."""
    from liquid2.exceptions import TemplateNotFoundError
    from liquid2.loader import BaseLoader, TemplateSource

    class PausingLoader(BaseLoader):
        def __init__(self):
            self.templates = templates

        def get_source(self, env, template_name, *, context=None, **kwargs):
            try:
                return TemplateSource(self.templates[template_name], template_name, None)
            except KeyError as err:
                raise TemplateNotFoundError(template_name) from err

        async def get_source_async(self, env, template_name, *, context=None, **kwargs):
            await pause()
            src = self.get_source(env, template_name, context=context, **kwargs)

            async def uptodate():           # a cached template asks this before it is served again: one more await point
                await pause()
                return True
            return TemplateSource(src.source, src.name, uptodate, src.matter)

    return PausingLoader()


class AsyncDrop(dict):
    """A mapping whose items are awaited lazily (one suspension per access) in async renders."""

    async def __getitem_async__(self, key):
        await pause()
        return self[key]


def outcome_of(fn):
    from liquid2.exceptions import LiquidError
    try:
        return {"ok": True, "out": fn()}
    except LiquidError as e:
        tok = getattr(e, "token", None)
        return {"ok": False, "err": type(e).__name__, "template": getattr(e, "template_name", None),
                "index": getattr(tok, "start", None) if tok is not None else None}
    except Exception as e:  # noqa: BLE001
        return {"ok": False, "err": "non-liquid:" + type(e).__name__, "template": None, "index": None, "msg": str(e)[:150]}


def wrap_async(v):
    if isinstance(v, dict):
        return AsyncDrop({k: wrap_async(x) for k, x in v.items()})
    if isinstance(v, list):
        return [wrap_async(x) for x in v]
    return v


def judge(rec, opts):
    replay.install_clock()
    out = []
    cfg = rec["cfg"]
    templates = {replay.conc(n): replay.conc(t) for n, t in rec["templates"]}
    main = replay.conc(rec["main"])
    what = constructs(rec)

    def run(mode):
        layers = [replay.layer(x) for x in rec["data"]]
        data = {k: wrap_async(v) for k, v in layers[0].items()} if mode != "sync" else layers[0]
        loader = make_async_loader({k: v for k, v in templates.items() if k != main})
        env = replay.make_env(cfg, loader=loader)
        if mode == "sync":
            def go():
                t = env.from_string(templates[main], name=main)
                return t.render(**data)
        else:
            def go():
                async def co():
                    t = env.from_string(templates[main], name=main)
                    return await t.render_async(**data)
                return drive(co)
        return outcome_of(go)

    s, a = run("sync"), run("async")
    if s != a:
        kind = "output" if (s["ok"] and a["ok"]) else ("error-location" if (not s["ok"] and not a["ok"] and s["err"] == a["err"]) else "outcome")
        out.append((f"sync-async-differ:{kind}:{what}", {"sync": s, "async": a}))
    # static analysis twins
    if opts.get("analyze"):
        def an(mode):
            loader = make_async_loader({k: v for k, v in templates.items() if k != main})
            env = replay.make_env(cfg, loader=loader)
            t = env.from_string(templates[main], name=main)
            if mode == "sync":
                r = t.analyze()
            else:
                r = drive(t.analyze_async)
            return repr((sorted(r.variables), sorted(r.globals), sorted(r.locals), sorted(r.filters), sorted(r.tags)))
        sa, aa = outcome_of(lambda: an("sync")), outcome_of(lambda: an("async"))
        if sa != aa:
            out.append((f"analyze-async-differs:{what}", {"sync": sa, "async": aa}))
    return out


# ---------------------------------------------------------------- schedules
TASK_POOL = [
    # (main template, partial templates, data factory)
    ("{% include 'dir/q.html' with d.a %}|{{ d.b }}", {"dir/q.html": "[{{ q }}]"}, lambda: {"d": AsyncDrop(a="A", b="B")}),
    ("{% for i in d.xs %}{{ i }}{% render 'r', v: i %}{% endfor %}", {"r": "<{{ v }}>"}, lambda: {"d": AsyncDrop(xs=[1, 2])}),
    ("{% assign c = d.a %}{% increment n %}{{ c }}{% increment n %}{% cycle 'x', 'y' %}{{ d.b }}{% cycle 'x', 'y' %}", {},
     lambda: {"d": AsyncDrop(a="1", b="2")}),
    ("{% extends 'base' %}{% block b %}child {{ d.a }} {{ block.super }}{% endblock %}", {"base": "[{% block b %}base{% endblock %}]{{ d.b }}"},
     lambda: {"d": AsyncDrop(a="A", b="B")}),
    ("{% macro m x %}({{ x }}{{ d.a }}){% endmacro %}{% call m 1 %}{% capture z %}{{ d.b }}{% endcapture %}{% call m z %}", {},
     lambda: {"d": AsyncDrop(a="A", b="B")}),
    ("{{ d.a | append: d.b }}{% if d.c %}T{% elsif d.a %}E{% endif %}", {}, lambda: {"d": AsyncDrop(a="A", b="B", c=False)}),
]


def _err_info(fn_coro):
    """Wrap a coroutine factory so that a LiquidError becomes a comparable description."""
    async def co():
        from liquid2.exceptions import LiquidError
        try:
            return await fn_coro()
        except LiquidError as e:
            tok = getattr(e, "token", None)
            return f"{type(e).__name__}@{getattr(e, 'template_name', None)}:{getattr(tok, 'start', None)}"
    return co


# tasks that go through get_template_async with their own globals, or fail while loading
LOADER_TASKS = [
    lambda env: (lambda: _load_render(env, "greet", {"who": "Ann"})),
    lambda env: (lambda: _load_render(env, "greet", {"who": "Bob"})),
    lambda env: (lambda: _load_render(env, "greet", None)),
    lambda env: _err_info(lambda: env.from_string("A{% include 'nosuch' %}", name="ta").render_async()),
    lambda env: _err_info(lambda: env.from_string("BBBBBBBB{% render 'nosuch' %}", name="tb").render_async()),
    lambda env: _err_info(lambda: _load_render(env, "nosuch", {"who": "X"})),
]


async def _load_render(env, name, globs):
    t = await env.get_template_async(name, globals=globs)
    return await t.render_async()


def run_schedules(chk: Check, tier: str) -> None:
    from liquid2 import CachingDictLoader, Environment

    partials = {"greet": "Hello, {{ who }}!{{ d.a }}"}
    for i, (_, parts, _) in enumerate(TASK_POOL):
        partials.update(parts)

    def mk_env(caching: bool):
        base = make_async_loader(partials)
        if not caching:
            return Environment(loader=base)
        from liquid2.builtin.loaders.mixins import CachingLoaderMixin

        class Caching(CachingLoaderMixin, type(base)):
            def __init__(self):
                CachingLoaderMixin.__init__(self, capacity=2)
                type(base).__init__(self)

        return Environment(loader=Caching())

    def solo(i, caching):
        env = mk_env(caching)
        src, _, data = TASK_POOL[i]
        t = env.from_string(src, name=f"t{i}")
        return run_solo(lambda: t.render_async(**data()))

    solos = {(i, c): solo(i, c) for i in range(len(TASK_POOL)) for c in (False, True)}
    shapes = sorted({tuple(sorted((solos[(i, False)][1], solos[(j, False)][1]), reverse=True))
                     for i, j in itertools.combinations_with_replacement(range(len(TASK_POOL)), 2)})
    schedules: dict[tuple, list] = {}
    for shape in shapes:
        name = "P" + "_".join(str(x) for x in shape)
        mod = ("---- MODULE MC_Async ----\nEXTENDS LiquidAsync\nMCPoints == <<" + ", ".join(str(x) for x in shape) + ">>\n====\n")
        r = tlc.run("MC_Async", tlc.cfg_text(constants={"Points": "<- MCPoints", "Focus": '"sched"'},
                                             invariants=["ScheduleIndependent", "Export"]), tag=f"async-{name}", timeout=1200,
                    extra_files={"MC_Async.tla": mod})
        try:
            if r.error:
                chk.machinery_error = r.error
                continue
            if r.invariant_violated:
                chk.spec_violation(r, f"schedules {shape}")
                continue
            chk.tlc(r, f"all interleavings of two tasks with {shape} await points")
            schedules[shape] = [rec["schedule"] for rec in r.out_lines()]
        finally:
            r.cleanup()
    n = 0
    for caching in (False, True):
        for i, j in itertools.combinations_with_replacement(range(len(TASK_POOL)), 2):
            # with a shared cache a task may need fewer suspensions than alone: the schedules of the
            # uncached shape are used and steps of finished tasks are skipped
            shape = tuple(sorted((solos[(i, False)][1], solos[(j, False)][1]), reverse=True))
            order = (i, j) if solos[(i, False)][1] >= solos[(j, False)][1] else (j, i)
            for sched in schedules.get(shape, []):
                env = mk_env(caching)
                facs = {}
                for slot, ti in enumerate(order, start=1):
                    src, _, data = TASK_POOL[ti]
                    t = env.from_string(src, name=f"t{ti}")
                    facs[slot] = (lambda t=t, data=data: t.render_async(**data()))
                results = run_schedule(facs, list(sched))
                n += 1
                for slot, ti in enumerate(order, start=1):
                    want = solos[(ti, caching)][0]
                    if results.get(slot) != want:
                        chk.violation(f"schedule-dependent-output:task{ti}:caching={caching}",
                                      {"tasks": [TASK_POOL[t][0] for t in order], "schedule": sched,
                                       "want": want, "got": results.get(slot)})
    # loader-level tasks (own globals per caller, failing loads): all pairs, all schedules; with a cold cache
    # and with the template already cached by an earlier caller with other globals (the hit awaits `uptodate`)
    def warm_env():
        env = mk_env(True)
        run_solo(lambda: _load_render(env, "greet", {"who": "Earlier"}))
        return env

    lsolo = {}
    for caching in (False, True, "warm"):
        for i, mk in enumerate(LOADER_TASKS):
            lsolo[(i, caching)] = run_solo(mk(warm_env() if caching == "warm" else mk_env(caching)))
    for caching in (False, True, "warm"):
        for i, j in itertools.combinations_with_replacement(range(len(LOADER_TASKS)), 2):
            base = "warm" if caching == "warm" else False
            ni, nj = lsolo[(i, base)][1], lsolo[(j, base)][1]
            shape = tuple(sorted((ni, nj), reverse=True))
            order = (i, j) if ni >= nj else (j, i)
            if shape not in schedules:
                mod = ("---- MODULE MC_Async ----\nEXTENDS LiquidAsync\nMCPoints == <<" + ", ".join(str(x) for x in shape) + ">>\n====\n")
                r = tlc.run("MC_Async", tlc.cfg_text(constants={"Points": "<- MCPoints", "Focus": '"sched"'},
                                                     invariants=["ScheduleIndependent", "Export"]), tag="async-loader", timeout=1200,
                            extra_files={"MC_Async.tla": mod})
                try:
                    if r.error:
                        chk.machinery_error = r.error
                        continue
                    chk.tlc(r, f"all interleavings of two loader tasks with {shape} await points")
                    schedules[shape] = [rec["schedule"] for rec in r.out_lines()]
                finally:
                    r.cleanup()
            for sched in schedules.get(shape, []):
                env = warm_env() if caching == "warm" else mk_env(caching)
                facs = {slot: LOADER_TASKS[ti](env) for slot, ti in enumerate(order, start=1)}
                results = run_schedule(facs, list(sched))
                n += 1
                for slot, ti in enumerate(order, start=1):
                    want = lsolo[(ti, caching)][0]
                    if results.get(slot) != want:
                        chk.violation(f"schedule-dependent-output:loader-task{ti}:caching={caching}",
                                      {"tasks": list(order), "schedule": sched, "want": want, "got": results.get(slot)})
    chk.validated(n)
    chk.add_distinct(n)
    chk.cov["evaluations"] += n
    chk.cov["samples"].append({"schedule_example": next(iter(schedules.values()), [[]])[0] if schedules else None,
                               "tasks": [t[0] for t in TASK_POOL[:2]]})


def judge_msg(rec, opts):
    """Message templates (LiquidMsg.tla): render_async prints the same text and asks the catalog for the
    same things in the same order as render, with plain data and with data that suspends."""
    from liquid2 import Environment
    from liquid2.exceptions import LiquidError

    from .c15 import Catalog, shape
    from .sched import drive
    env = opts.get("_env")
    if env is None:
        env = opts["_env"] = Environment()
    try:
        t = env.from_string(rec["src"])
    except LiquidError:
        return []
    out = []
    for n in (0, 1, 2):
        base = {"m": "Hello", "pl": "Hellos", "cx": "vctx", "n": n, "yes": True, "no": False}

        def run(mode):
            cat = Catalog()
            data = dict(base, translations=cat)
            try:
                if mode == "sync":
                    text = t.render(**data)
                else:
                    text = drive(lambda: t.render_async(**data))
            except LiquidError as e:
                text = "error:" + type(e).__name__
            return text, cat.calls
        s, a = run("sync"), run("async")
        if s != a:
            out.append((f"async-differs:translate:{shape(rec)}", {"src": rec["src"], "n": n, "sync": s, "async": a}))
            break
    return out


def _judge_msg(rec, opts):
    return judge_msg(rec, _MOPTS)


_MOPTS: dict = {}


def _judge_src(rec, opts):
    """Enumerated source text (MC_Strings): whatever parses renders alike through both interfaces."""
    from liquid2 import DictLoader, Environment
    from liquid2.exceptions import LiquidError
    from .c12 import RT_DATA
    env = _MOPTS.get("_env")
    if env is None:
        env = _MOPTS["_env"] = Environment(loader=DictLoader({}))
    try:
        t = env.from_string(rec["src"])
    except LiquidError:
        return []
    except Exception:  # noqa: BLE001
        return []           # C02's business
    s = outcome_of(lambda: t.render(**copy.deepcopy(RT_DATA)))
    a = outcome_of(lambda: drive(lambda: t.render_async(**{k: wrap_async(v) for k, v in copy.deepcopy(RT_DATA).items()})))
    if s != a:
        kind = "output" if (s["ok"] and a["ok"]) else "outcome"
        return [(f"sync-async-differ:{kind}:source:{rec['focus']}", {"src": rec["src"], "sync": s, "async": a})]
    return []

HOSTILE = "<b>Fish & 'Chips'</b>"


def _judge_inherit(rec, opts):
    """Inheritance chains of LiquidInherit, sync against async, with and without auto escape and with markup
    in the data (block.super is rendered output: it must not be escaped a second time in either mode)."""
    out = []
    templates = {replay.conc(n): replay.conc(t) for n, t in rec["templates"]}
    main = replay.conc(rec["main"])
    args = {k: (HOSTILE if isinstance(v, str) else v) for k, v in replay.layer(rec["data"][0]).items()}
    for esc in (False, True):
        cfg = dict(rec["cfg"], autoescape=esc)
        res = {}
        for mode in ("sync", "async"):
            env = replay.make_env(cfg, loader=make_async_loader(dict(templates)))

            def go():
                if mode == "sync":
                    return env.get_template(main).render(**args)

                async def co():
                    t = await env.get_template_async(main)
                    return await t.render_async(**args)
                return drive(co)
            res[mode] = outcome_of(go)
        a, b = res["sync"], res["async"]
        if a != b:
            shape = "entered-via-" + main if main in ("inc", "ren") else ("mixed-chains" if main == "mix1" else "chain")
            out.append((f"sync-async-differ:inherit:{shape}:autoescape={esc}", {"sync": a, "async": b}))
    return out


def check(tier: str) -> int:
    chk = Check("C03", tier)
    chk.assumptions += ["await points are those of the harness's pausing loader and async drops (one suspension per access)",
                        "coroutines are stepped by hand (coro.send), no event loop, no wall clock",
                        "TLC, Json/IOUtils modules, CPython"]
    plans = [("MC_Sites", "sites", {}, 2, 3, True), ("MC_Scopes", "scopes", {}, 2, 2, True), ("MC_Flow", "flow", {}, 1, 2, False),
             ("MC_Loops", "loops-single", {"Variant": '"single"'}, 1, 1, False), ("MC_Loops", "loops-nest", {"Variant": '"nest"'}, 2, 2, False),
             ("MC_Exprs", "exprs", {}, 1, 2, True), ("MC_Lambda", "lambda", {}, 4, 4, False), ("MC_Undef", "undef", {"Variant": '"single"'}, 1, 1, False),
             ("MC_Bool", "bool", {"Variant": '"ops"'}, 1, 1, False), ("MC_Static", "static", {}, 3, 3, True)]
    for module, name, consts, q, t, analyze in plans:
        r = gen.run_focus(chk, module, name, max_top=t if tier == "thorough" else q, extra_constants=consts,
                          export="ExportInputs", invariants=(), timeout=6000)
        if r is None:
            continue
        try:
            gen.replay_file(chk, r.workdir / "out.ndjson", "harness.c03", "judge", {"analyze": analyze})
        finally:
            r.cleanup()
    for variant, top in (("tags", 1), ("filters", 1)):
        r = tlc.run("LiquidMsg", tlc.cfg_text(constants={"MaxTop": str(top), "Focus": f'"async-msg-{variant}"', "Variant": f'"{variant}"'},
                                              invariants=["Export"]), tag=f"async-msg-{variant}", timeout=3000)
        try:
            if r.error:
                chk.machinery_error = r.error
                continue
            chk.tlc(r, f"message templates sync vs async ({variant})")
            gen.replay_file(chk, r.workdir / "out.ndjson", "harness.c03", "_judge_msg")
        finally:
            r.cleanup()
    # enumerated source text: expression symbols inside wrappers, markup symbols bare
    from . import tracecheck as tc
    from .c12 import RT_WRAPPERS
    plans2 = [(f"as-{w}", "expr-rt", 4 if tier == "thorough" else 3, pre, post) for w, pre, post in RT_WRAPPERS] + \
             [("as-markup", "markup-small", 5 if tier == "thorough" else 4, "", "")]
    for focus, alpha, n, pre, post in plans2:
        r = tc.enumerate_sources(chk, focus, alpha, n, pre, post)
        if r is None:
            continue
        try:
            gen.replay_file(chk, r.workdir / "out.ndjson", "harness.c03", "_judge_src")
        finally:
            r.cleanup()
    depth = 3 if tier == "thorough" else 2
    r = tlc.run("LiquidInherit", tlc.cfg_text(constants={"MaxDepth": str(depth), "Focus": '"async-inherit"', "AutoEsc": "FALSE"}, invariants=["Export"]),
                tag="async-inherit", extra_files={"concrete.json": gen.CONCRETE}, timeout=7000)
    try:
        if r.error:
            chk.machinery_error = r.error
        else:
            chk.tlc(r, f"inheritance chains of depth <= {depth} sync vs async, auto escape off and on, markup in the data")
            gen.replay_file(chk, r.workdir / "out.ndjson", "harness.c03", "_judge_inherit")
    finally:
        r.cleanup()
    run_schedules(chk, tier)
    return chk.finish()


def replay_file(path: str) -> int:
    d = json.load(open(path))
    rec = d["record"].get("record")
    if rec is None:
        print(json.dumps(d["record"], indent=1, default=str)[:3000])
        return 1
    res = judge(rec, {"analyze": True})
    print(rec["templates"], rec["data"])
    for sig, det in res:
        print("FAILS:", sig, det)
    if res:
        print(f"VIOLATION property=C03 replay={path}")
        return 1
    print("conforms")
    return 0
