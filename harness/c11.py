"""C11 - static analysis over-approximates runtime usage and reports exact locations.

Programs, partials and data come from TLC (the generated focuses; LiquidStatic.tla adds the
specification's own analysis).  For every program the library's analyze() report is compared
with what its renders actually do - recorded from outside the library by
  - a recording mapping as the global namespace (every root name looked up there, hit or miss),
  - a recorder around every registered filter,
  - a trace of the tag nodes whose render method runs,
under every data set of the focus: runtime usage must be contained in the report, every
reported span must be exactly the text of the reported path / filter name / tag in the named
template's source, and analyze_async() must return the same report.
"""
from __future__ import annotations

import asyncio
import re
from collections.abc import Mapping

from . import gen, replay
from .common import Check

LOOKUPS: set = set()
FILTERS: set = set()
TAGS: set = set()
TAG_SITES: set = set()       # (source text, tag name, start, stop) of every tag node that rendered
FILTER_SITES: set = set()    # (source text, filter name, start, stop) of every filter that was applied
_PATCHED = False


class RecMap(Mapping):
    """The global namespace of a render: records every root name asked for."""

    def __init__(self, data):
        self._d = dict(data)

    def __bool__(self):
        return True

    def __getitem__(self, key):
        LOOKUPS.add(key)
        return self._d[key]

    def __contains__(self, key):
        LOOKUPS.add(key)
        return key in self._d

    def get(self, key, default=None):
        LOOKUPS.add(key)
        return self._d.get(key, default)

    def __iter__(self):
        return iter(self._d)

    def __len__(self):
        return len(self._d)


def patch_nodes():
    """Trace tag nodes as they render (Node.render / render_async are the common entry points)."""
    global _PATCHED
    if _PATCHED:
        return
    import liquid2.ast as ast
    from liquid2.ast import BlockNode, ConditionalBlockNode
    from liquid2.builtin.tags.case_tag import MultiExpressionBlockNode
    from liquid2.token import is_lines_token, is_tag_token
    inner = (BlockNode, ConditionalBlockNode, MultiExpressionBlockNode)
    orig, orig_async = ast.Node.render, ast.Node.render_async

    def note(node):
        tok = getattr(node, "token", None)
        if tok is not None and not isinstance(node, inner) and (is_tag_token(tok) or is_lines_token(tok)):
            TAGS.add(tok.name)
            TAG_SITES.add((tok.source, tok.name, tok.start, tok.stop))

    def render(self, context, buffer):
        note(self)
        return orig(self, context, buffer)

    async def render_async(self, context, buffer):
        note(self)
        return await orig_async(self, context, buffer)

    ast.Node.render = render
    ast.Node.render_async = render_async
    from liquid2.builtin.expressions import Filter
    f_eval, f_eval_async = Filter.evaluate, Filter.evaluate_async

    def evaluate(self, left, context):
        FILTER_SITES.add((self.token.source, self.name, self.token.start, self.token.stop))
        return f_eval(self, left, context)

    async def evaluate_async(self, left, context):
        FILTER_SITES.add((self.token.source, self.name, self.token.start, self.token.stop))
        return await f_eval_async(self, left, context)

    Filter.evaluate = evaluate
    Filter.evaluate_async = evaluate_async
    _PATCHED = True


def spy_filters(env):
    for name, f in list(env.filters.items()):
        def make(f=f, name=name):
            def spy(left, *args, **kwargs):
                FILTERS.add(name)
                return f(left, *args, **kwargs)
            for flag in ("with_context", "with_environment"):
                if getattr(f, flag, False):
                    setattr(spy, flag, True)
            if hasattr(f, "validate"):
                spy.validate = f.validate
            return spy
        env.filters[name] = make()


def summary(a):
    def vs(d):
        return {k: sorted((str(v), v.span.template_name, v.span.start, v.span.end) for v in vals) for k, vals in d.items()}

    def sp(d):
        return {k: sorted((s.template_name, s.start, s.end) for s in vals) for k, vals in d.items()}
    return {"variables": vs(a.variables), "globals": vs(a.globals), "locals": vs(a.locals), "filters": sp(a.filters), "tags": sp(a.tags)}


def norm_path(text: str) -> str:
    t = re.sub(r"\s+", "", text)
    t = re.sub(r"\[\"([A-Za-z_][A-Za-z0-9_-]*)\"\]|\['([A-Za-z_][A-Za-z0-9_-]*)'\]", lambda m: "." + (m.group(1) or m.group(2)), t)
    # (a root written ['x'] is the variable x; a shorthand index .0 is the index [0])
    t = re.sub(r"\.(-?[0-9]+)(?![A-Za-z0-9_-])", r"[\1]", t)
    return t.replace('"', "'").lstrip(".")


def span_faults(a, sources: dict) -> list:
    out = []
    for kind, table in (("variable", a.variables), ("global", a.globals), ("local", a.locals)):
        for name, vals in table.items():
            for v in vals:
                src = sources.get(v.span.template_name)
                if src is None:
                    out.append((f"span-unknown-template:{kind}", {"name": str(v), "template": v.span.template_name}))
                    continue
                text = src[v.span.start:v.span.end]
                if not (0 <= v.span.start <= v.span.end <= len(src)) or norm_path(text) != norm_path(str(v)):
                    out.append((f"span-text:{kind}", {"reported": str(v), "text": text, "template": v.span.template_name,
                                                      "span": [v.span.start, v.span.end]}))
    for name, spans in a.filters.items():
        for s in spans:
            src = sources.get(s.template_name, "")
            if src[s.start:s.end] != name:
                out.append(("span-text:filter", {"reported": name, "text": src[s.start:s.end], "template": s.template_name}))
    for name, spans in a.tags.items():
        for s in spans:
            src = sources.get(s.template_name, "")
            text = src[s.start:s.end]
            inline = re.fullmatch(r"\{%[-+~]?\s*" + re.escape(name) + r"\b.*?[-+~]?%\}", text, re.S)
            line = re.fullmatch(re.escape(name) + r"\b[^\n]*", text.strip())     # a line of a {% liquid %} tag
            if not inline and not line:
                out.append(("span-text:tag", {"reported": name, "text": text, "template": s.template_name}))
    return out


def ternary_left_filters(env, templates) -> set:
    """Names of the filters applied to the left operand of an inline-if expression, anywhere."""
    from liquid2.builtin import TernaryFilteredExpression
    names: set = set()

    def walk_expr(e):
        if isinstance(e, TernaryFilteredExpression):
            names.update(f.name for f in (e.left.filters or []))
            walk_expr(e.left)
        for c in e.children():
            walk_expr(c)

    def walk(node, ctx):
        for e in node.expressions():
            walk_expr(e)
        for c in node.children(ctx, include_partials=False):
            walk(c, ctx)

    for src in templates.values():
        try:
            from liquid2 import RenderContext
            t = env.from_string(src)
            ctx = RenderContext(t)
            for n in t.nodes:
                walk(n, ctx)
        except Exception:  # noqa: BLE001
            pass
    return names


def kinds_of(src: str) -> str:
    tags = sorted(set(re.findall(r"\{%-?\s*([a-z]+)", src)) - {"endif", "endfor", "endcase", "endcapture", "endunless", "endwith", "endmacro", "endblock", "endtablerow"})
    return ",".join(tags[:4])


_TRANSLATES = re.compile(r"\{%-?\s*translate\b|\|\s*(t|gettext|ngettext|pgettext|npgettext)\b")


# the context variables the locale-aware filters are configured by (liquid2/builtin/filters/babel.py, *_var defaults)
CONFIG_VARS = {"currency_code", "locale", "currency_format", "input_locale", "timezone", "datetime_format", "input_timezone",
               "decimal_quantization", "decimal_format", "unit_length", "unit_format"}
_BABEL = re.compile(r"\|\s*(currency|money|money_with_currency|money_without_currency|money_without_trailing_zeros|datetime|decimal|unit)\b")


def uses_translation(templates: dict) -> bool:
    return any(_TRANSLATES.search(src) for src in templates.values())


def judge(rec, opts):
    from liquid2 import DictLoader
    patch_nodes()
    replay.install_clock()
    templates = {replay.conc(n): replay.conc(t) for n, t in rec["templates"]}
    main = replay.conc(rec["main"])
    layers = [replay.layer(x) for x in rec["data"]]
    data = {}
    for l in reversed(layers):
        data.update(l)
    class Suspending(DictLoader):
        """Every asynchronous read gives the event loop a turn, as a loader that reads files or a network does."""

        async def get_source_async(self, env, template_name, *, context=None, **kwargs):
            await asyncio.sleep(0)
            src = self.get_source(env, template_name, context=context, **kwargs)
            await asyncio.sleep(0)
            return src

    env = replay.make_env(rec["cfg"], loader=Suspending(dict(templates)))
    spy_filters(env)
    try:
        t = env.from_string(templates[main], name=main, overlay_data=RecMap(data))
    except Exception:  # noqa: BLE001
        return []       # does not parse: nothing to analyse (C02's business)
    where = kinds_of(templates[main])
    out = []
    try:
        a = t.analyze()
    except Exception as e:  # noqa: BLE001
        if type(e).__name__ == "TemplateNotFoundError":
            return []       # a computed or missing partial name: nothing can be known statically (assumption)
        return [(f"analyze-raised-{type(e).__name__}:{where}", {"templates": templates, "error": str(e)[:200]})]
    try:
        a2 = asyncio.run(t.analyze_async())
        if summary(a) != summary(a2):
            out.append((f"async-differs:{where}", {"templates": templates, "sync": summary(a), "async": summary(a2)}))
    except Exception as e:  # noqa: BLE001
        out.append((f"analyze-async-raised-{type(e).__name__}:{where}", {"templates": templates}))
    out += [(f"{sig}:{where}", dict(det, templates=templates)) for sig, det in span_faults(a, templates)[:2]]
    # what a partial reports when analysed on its own (its own text only) is reported for it, at the same place, by the
    # analysis of a template that loads it - whatever other templates say at the same offsets
    if not out:
        loaded = {sp.template_name for spans in a.tags.values() for sp in spans} | {v.span.template_name for vs in a.variables.values() for v in vs}
        for pname in sorted(n for n in loaded if n in templates and n != main):
            try:
                ap = env.from_string(templates[pname], name=pname).analyze(include_partials=False)
            except Exception:  # noqa: BLE001
                continue
            have = {(str(v), v.span.template_name, v.span.start, v.span.end) for vs in a.variables.values() for v in vs}
            lost = sorted((str(v), v.span.start, v.span.end) for vs in ap.variables.values() for v in vs
                          if (str(v), pname, v.span.start, v.span.end) not in have)
            if lost:
                out.append((f"partial-variable-location-not-reported:{where}", {"templates": templates, "partial": pname, "lost": lost[:5]}))
                break
    # the same root loaded by the loader under a name in a directory, whose last part is the name of a partial it uses:
    # what is reported (names) is what is reported for the root parsed from a string, and every span names the template
    # whose source it lies in
    others = [n for n in templates if n != main]
    if others and not out:
        alias = f"d/{others[0]}"
        both = dict(templates)
        both[alias] = templates[main]
        env2 = replay.make_env(rec["cfg"], loader=DictLoader(dict(both)))
        try:
            a3 = env2.get_template(alias).analyze()
        except Exception as e:  # noqa: BLE001
            a3 = None
            if type(e).__name__ != "TemplateNotFoundError":
                out.append((f"analyze-raised-{type(e).__name__}:loaded-root:{where}", {"templates": both, "error": str(e)[:200]}))
        if a3 is not None:
            for what in ("variables", "globals", "filters", "tags"):
                if set(getattr(a, what)) != set(getattr(a3, what)):
                    out.append((f"loaded-root-differs:{what}:{where}", {"templates": both, "root": alias, "from_string": sorted(getattr(a, what)),
                                                                         "loaded": sorted(getattr(a3, what))}))
                    break
            else:
                out += [(f"{sig}:loaded-root:{where}", dict(det, templates=both, root=alias)) for sig, det in span_faults(a3, both)[:1]]
    for mode in ("sync", "async"):
        LOOKUPS.clear(); FILTERS.clear(); TAGS.clear(); TAG_SITES.clear(); FILTER_SITES.clear()
        try:
            if mode == "sync":
                t.render()
            else:
                asyncio.run(t.render_async())
        except Exception:  # noqa: BLE001
            pass        # what ran before the error still ran
        known_vars = set(a.variables)
        # a root written in brackets ({{ [x] }}) names the variable by the value of another one: such names
        # cannot be known statically (assumption); only names that stand in some template's text are judged then
        computed = any(isinstance(v.segments[0], list) for vs in a.variables.values() for v in vs)
        written = lambda n: (not computed) or (n != "" and any(n in src for src in templates.values()))  # noqa: E731
        looked = {str(n) for n in LOOKUPS}          # ({{ [1] }} asks the namespace for the key 1)
        missed = sorted(n for n in looked if n not in known_vars and written(n))
        if missed:
            # the listed known finding: the catalog the translate tag and the translation filters read from the variable
            # `translations` (nothing else is excused: any other name in `missed` keeps the ordinary signature)
            site = where
            if set(missed) <= CONFIG_VARS and any(_BABEL.search(src) for src in templates.values()):
                site = "filter-configuration"       # the third listed finding: what the babel filters read from the context
            elif uses_translation(templates):
                msgvars = {m for src in templates.values() for m in re.findall(r"(?<!%)%\((\w+)\)s", src)}
                if missed == ["translations"]:
                    site = "translations-catalog"
                elif set(missed) <= msgvars | {"translations"}:
                    site = "message-variables"      # the second listed finding: `%(name)s` in a message reads `name`
            out.append((f"variable-not-reported:{site}", {"templates": templates, "looked_up": missed, "reported": sorted(known_vars), "mode": mode}))
        notglobal = sorted(n for n in looked if n in known_vars and n not in a.globals and n not in a.locals)
        if notglobal:
            out.append((f"global-not-reported:{where}", {"templates": templates, "looked_up": notglobal, "globals": sorted(a.globals),
                                                          "locals": sorted(a.locals), "mode": mode}))
        f_missed = sorted(FILTERS - set(a.filters))
        if f_missed:
            # the listed known finding: filters on the left operand of an inline if (nothing else is excused)
            site = "ternary-left-operand" if set(f_missed) <= ternary_left_filters(env, templates) else where
            out.append((f"filter-not-reported:{site}", {"templates": templates, "applied": f_missed, "reported": sorted(a.filters), "mode": mode}))
        t_missed = sorted(TAGS - set(a.tags))
        if t_missed:
            out.append((f"tag-not-reported:{where}", {"templates": templates, "executed": t_missed, "reported": sorted(a.tags), "mode": mode}))
        # ... each at its own location: the span of the tag / filter name in the template it stands in
        by_source: dict = {}
        for tname, src in templates.items():
            by_source.setdefault(src, []).append(tname)
        for kind, sites, table in (("tag", TAG_SITES, a.tags), ("filter", FILTER_SITES, a.filters)):
            lost = []
            for source, name, start, stop in sorted(sites):
                names = by_source.get(source)
                if not names or name not in table:
                    continue            # (a missing name is reported above)
                if kind == "filter" and set([name]) <= ternary_left_filters(env, templates):
                    continue            # the listed known finding
                have = {(sp.template_name, sp.start, sp.end) for sp in table[name]}
                if not any((tn, start, stop) in have for tn in names):
                    lost.append([names[0], name, start, stop])
            if lost:
                out.append((f"{kind}-location-not-reported:{where}", {"templates": templates, "executed_at": lost[:5], "mode": mode}))
        if out:
            break
    return out[:3]


FOCUSES = [("MC_Scopes", "scopes", {}, 2, 3), ("MC_Flow", "flow", {}, 1, 2), ("MC_Lambda", "lambda", {}, 4, 4),
           ("MC_Sites", "sites", {}, 2, 3), ("MC_Exprs", "exprs", {}, 1, 2), ("MC_Loops", "loops-single", {"Variant": '"single"'}, 1, 1),
           ("MC_Undef", "undef-single", {"Variant": '"single"'}, 1, 1), ("MC_Attr", "attr-all", {"Variant": '"all"'}, 1, 1),
           ("MC_Static", "static", {}, 3, 3), ("MC_Short", "short", {}, 2, 2)]


def judge_globals(rec, opts):
    """S->C: every name the reference semantics looks up in the global namespace (LiquidGen!LookedUp)
    is a global (or a template-bound name) of the library's report."""
    from liquid2 import DictLoader
    templates = {replay.conc(n): replay.conc(t) for n, t in rec["templates"]}
    env = replay.make_env(rec["cfg"], loader=DictLoader(dict(templates)))
    try:
        a = env.from_string(templates["main"], name="main").analyze()
    except Exception:  # noqa: BLE001
        return []
    want = {replay.conc(g) for g in rec["looked_up"]}
    # (a name the template binds somewhere - analyze().locals - is not "never bound": the property asks for the others)
    missing = sorted(g for g in want if g not in a.globals and g not in a.locals)
    if missing:
        return [(f"model-global-not-reported:{kinds_of(templates['main'])}", {"templates": templates, "looked_up": sorted(want), "globals": sorted(a.globals)})]
    return []


MODEL_FOCUSES = [("MC_Scopes", "scopes-g", {}, 2, 3), ("MC_Flow", "flow-g", {}, 1, 2), ("MC_Lambda", "lambda-g", {}, 4, 4),
                 ("MC_Exprs", "exprs-g", {}, 1, 1), ("MC_Loops", "loops-g", {"Variant": '"single"'}, 1, 1), ("MC_Static", "static-g", {}, 3, 3)]


def _enc(v):
    if v is None:
        return {"t": "nil"}
    if isinstance(v, bool):
        return {"t": "bool", "b": v}
    if isinstance(v, int):
        return {"t": "int", "n": v}
    if isinstance(v, str):
        return {"t": "str", "v": v, "safe": False}
    if isinstance(v, list):
        return {"t": "arr", "v": [_enc(x) for x in v]}
    return {"t": "hash", "h": [[k, _enc(x)] for k, x in v.items()]}


_SRC_CFG = {"undef": "default", "depthlimit": 30, "autoescape": False, "trim": "+", "suppress": True, "shopify": False}


def _judge_src(rec, opts):
    """Enumerated source text (MC_Strings): whatever parses is analysed and rendered, the run must stay inside the report."""
    from .c12 import RT_DATA
    rec2 = {"focus": rec["focus"], "main": "main", "templates": [["main", rec["src"]]], "cfg": _SRC_CFG,
            "data": [[[k, _enc(v)] for k, v in RT_DATA.items()], [], [], []]}
    return judge(rec2, opts)


def check(tier: str) -> int:
    chk = Check("C11", tier)
    chk.assumptions += ["partials and parents are named by string literals (a computed name cannot be known statically)",
                        "a variable whose root is computed ({{ [x] }}) is reported as a path; the name it resolves to at run time is not judged",
                        "variables a filter reads on its own account (translations, locale ...) are configuration, not template variables",
                        "TLC, Json/IOUtils modules, CPython"]
    for module, name, consts, q, t in FOCUSES:
        r = gen.run_focus(chk, module, name, max_top=t if tier == "thorough" else q, extra_constants=consts,
                          export="ExportInputs", invariants=())
        if r is None:
            continue
        try:
            gen.replay_file(chk, r.workdir / "out.ndjson", "harness.c11", "judge")
        finally:
            r.cleanup()
    # enumerated source text: expression symbols inside wrappers, markup symbols bare
    from . import tracecheck as tc
    from .c12 import RT_WRAPPERS
    plans2 = [(f"an-{w}", "expr-rt", 4 if tier == "thorough" else 3, pre, post) for w, pre, post in RT_WRAPPERS] + \
             [("an-markup", "markup-small", 5 if tier == "thorough" else 4, "", "")]
    for focus, alpha, n, pre, post in plans2:
        r = tc.enumerate_sources(chk, focus, alpha, n, pre, post)
        if r is None:
            continue
        try:
            gen.replay_file(chk, r.workdir / "out.ndjson", "harness.c11", "_judge_src")
        finally:
            r.cleanup()
    for module, name, consts, q, t in MODEL_FOCUSES:
        r = gen.run_focus(chk, module, name, max_top=t if tier == "thorough" else q, extra_constants=consts,
                          export="ExportGlobals", invariants=())
        if r is None:
            continue
        try:
            gen.replay_file(chk, r.workdir / "out.ndjson", "harness.c11", "judge_globals")
        finally:
            r.cleanup()
    return chk.finish()


def replay_file(path: str) -> int:
    import json
    d = json.load(open(path))
    rec = d["record"]["record"] if "record" in d["record"] else d["record"]
    if "src" in rec and "templates" not in rec:
        res = _judge_src(rec, {})
        rec = dict(rec, templates=[["main", rec["src"]]])
    else:
        res = judge_globals(rec, {}) if "looked_up" in rec else judge(rec, {})
    print(rec["templates"])
    for sig, det in res:
        print("FAILS:", sig, {k: v for k, v in det.items() if k != "templates"})
    if res:
        print(f"VIOLATION property=C11 replay={path}")
    return 1 if res else 0
