#!/venv/bin/python
"""setup_cmd: check that the tools are present and every TLA+ module parses (offline)."""
from __future__ import annotations

import sys
from concurrent.futures import ThreadPoolExecutor
from pathlib import Path

sys.path.insert(0, str(Path(__file__).resolve().parent.parent))
from harness import tlc  # noqa: E402


def main() -> int:
    mods = sorted(p.stem for p in tlc.SPEC.glob("*.tla"))
    bad = []

    def one(m):
        try:
            tlc.sany(m)
        except tlc.TlcError as e:
            bad.append((m, str(e)))

    with ThreadPoolExecutor(8) as ex:
        list(ex.map(one, mods))
    for m, e in bad:
        print(f"SANY FAILED {m}\n{e}")
    import liquid2  # noqa: F401  (editable install of /repo)
    print(f"setup: {len(mods)} TLA+ modules parsed, {len(bad)} failed; liquid2 from {liquid2.__file__}")
    (tlc.CACHE).mkdir(exist_ok=True)
    return 1 if bad else 0


if __name__ == "__main__":
    sys.exit(main())
