"""C17 - tokens tile the source and every reported position lies inside it.

TLC enumerates sources (MC_Strings: all symbol sequences up to a bound over the markup and
expression alphabets), the library's tokenize()/parse/render are recorded for each, for the
golden corpus and for its prefixes and single-edit mutants, and TLC evaluates Tiling,
Nested/SpanIsText and the position clauses of Trace_Tokens.tla on every recorded trace.
"""
from __future__ import annotations

import os

import random

from . import tracecheck as tc
from .common import SCRATCH, Check, seed

OWN = ("tiling", "nesting-or-span", "node-position")


def mine(clause: str) -> bool:
    return clause in OWN or clause.endswith("-position") or clause.endswith("-error-context")


def sources(chk: Check, tier: str):
    thorough = tier == "thorough"
    plans = [("lexM", "markup-small" if not thorough else "markup", 4 if not thorough else 4, "", ""),
             ("lexM-breaks", "markup-breaks", 4 if not thorough else 5, "", ""),
             ("lexE-out", "expr-small" if not thorough else "expr", 3 if not thorough else 4, "{{ ", " }}"),
             ("lexE-if", "expr-small", 3 if not thorough else 4, "{% if ", " %}a{% endif %}"),
             ("lexE-for", "expr-small", 3, "{% for i in ", " %}{{ i }}{% endfor %}"),
             ("lexE-cycle", "expr-small", 3 if not thorough else 4, "{% cycle ", ", 'b' %}"),
             ("lexE-interp", "expr-small", 3 if not thorough else 4, "{{ 'a${ ", " }b' }}"),
             # a bracket left open in one output must not reach into the next one
             ("lexE-open-bracket", "expr-small", 3 if not thorough else 4, "{{ a[b }}|{{ x", " }}"),
             ("lexE-liquid", "expr-small", 2 if not thorough else 3, "{% liquid echo ", "\n assign y = 1 %}")]
    lines = []
    for focus, alpha, n, pre, suf in plans:
        r = tc.enumerate_sources(chk, focus, alpha, n, pre, suf)
        if r is None:
            continue
        try:
            with (r.workdir / "out.ndjson").open() as fd:
                lines.extend(l.strip() for l in fd if l.strip())
        finally:
            r.cleanup()
    rng = random.Random(seed())
    corpus = tc.corpus_sources()
    lines.extend(tc.as_lines(corpus, "corpus"))
    lines.extend(tc.as_lines(tc.mutants(corpus, 6 if not thorough else 40, rng), "mutant"))
    return lines


def signature(b) -> str:
    tr = b["trace"]
    kinds = sorted({t["k"] for t in tr["tok"].get("tokens", [])})
    return f"{b['clause']}:{tr['id'].split('-')[0]}:{','.join(kinds)[:80]}"


def judge_starts(rec, opts):
    """S->C: the top-level nodes of a generated program begin exactly where the specification's
    text for them begins (LiquidGen!ExportStarts), and a node that is a single piece of markup
    (text, output, non-block tag, comment) ends exactly where that text ends."""
    from liquid2 import Environment
    from liquid2.exceptions import LiquidError

    from .replay import conc
    env = opts.get("_env")
    if env is None:
        from liquid2.shopify import Environment as ShopifyEnv
        env = opts["_env"] = ShopifyEnv()
    src = conc(rec["src"])
    try:
        t = env.from_string(src)
    except LiquidError:
        return []
    got = [(n.token.start, n.token.stop) for n in t.nodes]
    want = rec["starts"]
    kinds = "+".join(rec["kinds"])[:60]
    if len(got) != len(want):
        return [(f"node-count:{kinds}", {"src": src, "want": want, "got": got})]
    if [g[0] for g in got] != want:
        return [(f"node-start:{kinds}", {"src": src, "want": want, "got": got})]
    single = {"text", "out", "echo", "assign", "comment", "raw", "incr", "decr", "cycle", "break", "continue", "include", "render", "call", "extends"}
    for i, k in enumerate(rec["kinds"]):
        if k in single and k != "raw" and got[i][1] != want[i] + rec["lens"][i]:
            return [(f"node-stop:{k}", {"src": src, "node": i, "want": want[i] + rec["lens"][i], "got": got[i]})]
    return []


def _judge_starts(rec, opts):
    return judge_starts(rec, _SOPTS)


_SOPTS: dict = {}


def check(tier: str, pid: str = "C17", is_mine=mine) -> int:
    chk = Check(pid, tier)
    chk.assumptions += ["sources are over the model alphabet (ASCII + the placeholder table of spec/concrete.json)",
                        "TLC, Json/IOUtils modules, CPython"]
    lines = sources(chk, tier)
    out = SCRATCH / f"{pid}-traces-{os.getpid()}"
    import shutil
    shutil.rmtree(out, ignore_errors=True)
    shards = tc.record_sources(lines, out)
    try:
        bad = tc.validate(chk, shards, pid)
    finally:
        shutil.rmtree(out, ignore_errors=True)
    for b in bad:
        if is_mine(b["clause"]):
            chk.violation(signature(b), b)
    for l in lines[:: max(1, len(lines) // 5)][:5]:
        chk.cov["samples"].append(l)
    if pid == "C17":
        from . import gen, lexer
        # the scanner as a step machine (LiquidLexer.tla): TLC checks the machine, the library must produce its tokens
        lexer.run(chk, tier)
        for module, name, consts, q, t in (("MC_Flow", "starts-flow", {}, 2, 3), ("MC_Trim", "starts-markers", {"Variant": '"markers"'}, 3, 4),
                                          ("MC_Scopes", "starts-scopes", {}, 2, 3), ("MC_Sites", "starts-sites", {}, 2, 3)):
            r = gen.run_focus(chk, module, name, max_top=t if tier == "thorough" else q, extra_constants=consts,
                              export="ExportStarts", invariants=())
            if r is None:
                continue
            try:
                gen.replay_file(chk, r.workdir / "out.ndjson", "harness.c17", "_judge_starts")
            finally:
                r.cleanup()
    if pid == "C17":
        # errors raised while a chain of templates renders carry a position in the template they name (LiquidInherit)
        from . import tlc
        consts = {"MaxDepth": "2", "Focus": '"inherit-positions"', "AutoEsc": "FALSE"}
        r = tlc.run("LiquidInherit", tlc.cfg_text(constants=consts, invariants=["Export"]), tag="inherit-pos",
                    extra_files={"concrete.json": gen.CONCRETE}, timeout=7000)
        try:
            if r.error:
                chk.machinery_error = r.error
            else:
                chk.tlc(r, "chains of depth <= 2 and the fixed three-level chains of LiquidInherit: errors name the template their position lies in")
                gen.replay_file(chk, r.workdir / "out.ndjson", "harness.c08", "judge_positions")
        finally:
            r.cleanup()
    chk.cov["exhaustive"] = True
    chk.cov["explanation"] = "exhaustive over the listed alphabets/lengths; corpus mutants are sampled by VERIF_SEED"
    return chk.finish()


def replay_file(path: str) -> int:
    import json

    import liquid2

    from . import tokens
    d = json.load(open(path))
    tr = d["record"]["trace"]
    rec = tokens.record(tr["src"], tr["id"], liquid2.Environment(), {"x": {"y": [1, 2]}, "t": "T"})
    print("source:", repr(tr["src"]))
    print("clause when recorded:", d["record"]["clause"])
    print("now:", json.dumps(rec, indent=1)[:3000])
    return 1
