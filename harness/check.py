#!/venv/bin/python
"""Entry point: harness/check.py <property> [--tier quick|thorough] [--replay path]."""
from __future__ import annotations

import argparse
import importlib
import os
import sys
import traceback
from pathlib import Path

sys.path.insert(0, str(Path(__file__).resolve().parent.parent))
os.environ.setdefault("PYTHONHASHSEED", "0")


def main() -> int:
    ap = argparse.ArgumentParser()
    ap.add_argument("property")
    ap.add_argument("--tier", default=os.environ.get("VERIF_TIER", "quick"), choices=["quick", "thorough"])
    ap.add_argument("--replay")
    a = ap.parse_args()
    pid = a.property.upper()
    try:
        mod = importlib.import_module(f"harness.{pid.lower()}")
        if a.replay:
            return mod.replay_file(a.replay)
        return mod.check(a.tier)
    except SystemExit:
        raise
    except BaseException:  # noqa: BLE001
        traceback.print_exc()
        print(f"MACHINERY-ERROR property={pid} (exception in the harness, see traceback)")
        return 2


if __name__ == "__main__":
    sys.exit(main())
