"""Context objects for C05: every one of them keeps values in Python attributes, methods and
properties that the documented protocol (item access, length, iteration, string conversion,
__liquid__/__html__/__getitem_async__) does not expose.  Attribute reads are logged by name."""
from __future__ import annotations

from collections.abc import Mapping, Sequence

LOG: list[tuple[str, str]] = []          # (class, attribute name) of every explicit attribute read
CALLS: list[str] = []                    # methods / properties that were actually evaluated


class _Spy:
    secret = "SECRET-class-attr"

    def __getattribute__(self, name):
        LOG.append((type(self).__name__, name))
        return object.__getattribute__(self, name)

    def method(self):
        CALLS.append("method")
        return "SECRET-call"

    @property
    def prop(self):
        CALLS.append("prop")
        return "SECRET-prop"

    # what a library might be tempted to use an object for: formatting itself as a date, as a number, as a field
    def strftime(self, fmt):
        CALLS.append("strftime")
        return "SECRET-strftime"

    def isoformat(self, *a):
        CALLS.append("isoformat")
        return "SECRET-isoformat"

    def __format__(self, spec):
        CALLS.append("__format__")
        return "SECRET-format"

    def __str__(self):
        return type(self).__name__.upper()

    __repr__ = __str__

    def _hide(self):
        object.__setattr__(self, "secret", "SECRET-attr")
        object.__setattr__(self, "_private", "SECRET-private")
        object.__setattr__(self, "data", "SECRET-data")
        object.__setattr__(self, "num", 4242)


class MapDrop(_Spy, Mapping):
    """A drop exposing a strict subset of what it holds."""

    def __init__(self, exposed: dict):
        object.__setattr__(self, "_d", dict(exposed))
        self._hide()

    def __getitem__(self, key):
        return object.__getattribute__(self, "_d")[key]

    def __iter__(self):
        return iter(object.__getattribute__(self, "_d"))

    def __len__(self):
        return len(object.__getattribute__(self, "_d"))


class SeqDrop(_Spy, Sequence):
    def __init__(self, items):
        object.__setattr__(self, "_l", list(items))
        self._hide()

    def __getitem__(self, i):
        return object.__getattribute__(self, "_l")[i]

    def __len__(self):
        return len(object.__getattribute__(self, "_l"))


class PlainObj(_Spy):
    """A plain instance: it has a string form and nothing else a template may see."""

    def __init__(self, s: str = "OBJ"):
        object.__setattr__(self, "_s", s)
        self._hide()

    def __str__(self):
        return object.__getattribute__(self, "_s")

    def __eq__(self, other):
        return isinstance(other, PlainObj)

    def __hash__(self):
        return 7

    def items(self):
        CALLS.append("items")
        return [("SECRET-item", 1)]

    def keys(self):
        CALLS.append("keys")
        return ["SECRET-key"]

    def get(self, *a):
        CALLS.append("get")
        return "SECRET-get"


class CallableObj(PlainObj):
    """A context value that happens to be callable (a function, a class, an object with __call__):
    a template has no way to call it."""

    def __call__(self, *a, **kw):
        CALLS.append("__call__")
        return "SECRET-called"


def dropify(v):
    """dict -> MapDrop, list -> SeqDrop, recursively."""
    if isinstance(v, dict):
        return MapDrop({k: dropify(x) for k, x in v.items()})
    if isinstance(v, list):
        return SeqDrop([dropify(x) for x in v])
    return v


def reset():
    LOG.clear()
    CALLS.clear()
