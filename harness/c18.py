"""C18 - whitespace control changes nothing but whitespace.

TLC checks on the reference semantics (invariant WsOnly of LiquidGen) that for every
program of the trim focuses, every marker assignment, default trim mode and suppression
setting, the output equals the marker-free, untrimmed, unsuppressed output once whitespace
is disregarded; the exported behaviours are rendered by the library, which must produce
exactly the model's text (so the same holds of the library, and literal text is verbatim
when no trimming is in force).
"""
from __future__ import annotations

from . import gen
from .c01 import judge  # noqa: F401  (worker entry point)
from .common import Check


def check(tier: str) -> int:
    chk = Check("C18", tier)
    chk.assumptions += ["whitespace = the characters str.strip()/isspace() recognise (table spec/concrete.json)",
                        "programs do not inspect captured text (they only print it)",
                        "TLC, Json/IOUtils modules, CPython"]
    runs = [("markers", 3), ("capture", 4), ("blank", 4)] if tier == "quick" else [("markers", 5), ("capture", 5), ("blank", 5)]
    for variant, top in runs:
        r = gen.run_focus(chk, "MC_Trim", f"trim-{variant}", max_top=top, invariants=("Total", "WsOnly"),
                          extra_constants={"Variant": f'"{variant}"'}, timeout=6000)
        if r is None:
            continue
        try:
            gen.replay_file(chk, r.workdir / "out.ndjson", "harness.c18", "judge18")
        finally:
            r.cleanup()
    # markers inside a translate block: the message that is looked up, and so the translation that is printed, is that of
    # the unmarked block (LiquidMsg, variant "markers"; the catalog double translates)
    from . import tlc
    r = tlc.run("LiquidMsg", tlc.cfg_text(constants={"MaxTop": "2", "Focus": '"trim-translate"', "Variant": '"markers"'},
                                          invariants=["Covered", "CommentsOnce", "Export"]), tag="trim-translate", timeout=3000)
    try:
        if r.error:
            chk.machinery_error = r.error
        elif r.invariant_violated:
            chk.spec_violation(r, "LiquidMsg markers")
        else:
            chk.tlc(r, "translate blocks whose message variables carry markers (LiquidMsg markers)")
            gen.replay_file(chk, r.workdir / "out.ndjson", "harness.c18", "judge18_msg")
    finally:
        r.cleanup()
    return chk.finish()


class _German:
    """A catalog that translates: a message id that changed with a marker is a message that is not found."""

    @staticmethod
    def _tr(m):
        return m.replace("Hello", "Hallo").replace("Dear", "Liebe")

    def gettext(self, message):
        return self._tr(message)

    def ngettext(self, singular, plural, n):
        return self._tr(singular if n == 1 else plural)

    def pgettext(self, ctx, message):
        return self._tr(message)

    def npgettext(self, ctx, singular, plural, n):
        return self._tr(singular if n == 1 else plural)


class _Exact(_German):
    """A catalog with entries for the unmarked messages only (what a translator was given)."""

    def __init__(self, known):
        self.known = known

    def _tr(self, m):  # type: ignore[override]
        return _German._tr(m) if m in self.known else m


def judge18_msg(rec, opts):
    import re

    from liquid2 import Environment, WhitespaceControl
    from liquid2.exceptions import LiquidError
    from liquid2.messages import extract_from_template

    def nows(s):
        return re.sub(r"\s+", "", s)
    out = []
    try:
        plain = Environment().from_string(rec["plain"])
        known = set()
        for m in extract_from_template(plain):
            for part in m.message:
                known.add(part[0] if isinstance(part, tuple) else part)
    except LiquidError as e:
        return [(f"{rec['focus']}:does-not-parse", {"src": rec["plain"], "error": str(e)[:200]})]
    for n in (1, 2):
        data = dict(m="Hello", pl="Hellos", cx="vctx", n=n, yes=True, no=False)
        want = plain.render(translations=_Exact(known), **data)
        for mode in (WhitespaceControl.PLUS, WhitespaceControl.MINUS, WhitespaceControl.TILDE):
            try:
                got = Environment(default_trim=mode).from_string(rec["src"]).render(translations=_Exact(known), **data)
            except LiquidError as e:
                out.append((f"{rec['focus']}:raises-with-markers", {"src": rec["src"], "error": str(e)[:200]}))
                return out
            if nows(got) != nows(want):
                out.append((f"{rec['focus']}:text-differs:translate", {"src": rec["src"], "plain": rec["plain"], "trim": mode.name,
                                                                        "n": n, "want": want, "got": got}))
                return out
            # with no trimming in force the marked block prints exactly what the unmarked one prints
            if mode is WhitespaceControl.PLUS and got != want:
                out.append((f"{rec['focus']}:whitespace-differs:translate", {"src": rec["src"], "n": n, "got": got, "want": want}))
                return out
    return out


def judge18(rec, opts):
    from . import replay
    from .c01 import constructs
    got, _ = replay.render_record(rec)
    f = replay.compare(rec, got)
    if f is None:
        return []
    if f["clause"] in ("output", "outcome"):
        import re
        def nows(s):
            return re.sub(r"\s+", "", s) if isinstance(s, str) else s
        kind = "text-differs" if (f["clause"] == "output" and nows(f["expected"]) != nows(f["got"])) else "whitespace-differs"
        return [(f"{rec['focus']}:{kind}:{constructs(rec)}", f)]
    return []


def replay_file(path: str) -> int:
    from . import c01
    return c01.replay_file(path)
