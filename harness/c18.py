"""C18 - whitespace control changes nothing but whitespace.

TLC checks on the reference semantics (invariant WsOnly of LiquidGen) that for every
program of the trim focuses, every marker assignment, default trim mode and suppression
setting, the output equals the marker-free, untrimmed, unsuppressed output once whitespace
is disregarded; the exported behaviours are rendered by the library, which must produce
exactly the model's text (so the same holds of the library, and literal text is verbatim
when no trimming is in force).
"""
from __future__ import annotations

from . import gen
from .c01 import judge  # noqa: F401  (worker entry point)
from .common import Check


def check(tier: str) -> int:
    chk = Check("C18", tier)
    chk.assumptions += ["whitespace = the characters str.strip()/isspace() recognise (table spec/concrete.json)",
                        "programs do not inspect captured text (they only print it)",
                        "TLC, Json/IOUtils modules, CPython"]
    runs = [("markers", 3), ("capture", 4), ("blank", 4)] if tier == "quick" else [("markers", 5), ("capture", 5), ("blank", 5)]
    for variant, top in runs:
        r = gen.run_focus(chk, "MC_Trim", f"trim-{variant}", max_top=top, invariants=("Total", "WsOnly"),
                          extra_constants={"Variant": f'"{variant}"'}, timeout=6000)
        if r is None:
            continue
        try:
            gen.replay_file(chk, r.workdir / "out.ndjson", "harness.c18", "judge18")
        finally:
            r.cleanup()
    return chk.finish()


def judge18(rec, opts):
    from . import replay
    from .c01 import constructs
    got, _ = replay.render_record(rec)
    f = replay.compare(rec, got)
    if f is None:
        return []
    if f["clause"] in ("output", "outcome"):
        import re
        def nows(s):
            return re.sub(r"\s+", "", s) if isinstance(s, str) else s
        kind = "text-differs" if (f["clause"] == "output" and nows(f["expected"]) != nows(f["got"])) else "whitespace-differs"
        return [(f"{rec['focus']}:{kind}:{constructs(rec)}", f)]
    return []


def replay_file(path: str) -> int:
    from . import c01
    return c01.replay_file(path)
