"""C12 - serialising a template and reparsing it preserves its behaviour.

TLC enumerates the programs of the expression, flow, loop, scope and whitespace-marker
focuses (every expression form and marker combination, LiquidSrc being the specification of
valid text for an AST) with data chosen to take every branch; for each the harness checks
  parse(str(t)) succeeds, renders like t (same text or same error class) on every data set,
  str() is a fixed point after one round trip (repeated round trips stay the same), and
  pickle.loads(pickle.dumps(t)) renders like t.
"""
from __future__ import annotations

import pickle

from . import gen, replay
from .c01 import constructs
from .common import Check


def _same(a: dict, b: dict) -> bool:
    if a["ok"] != b["ok"]:
        return False
    if a["ok"]:
        return a["out"] == b["out"]
    return a["err"] == b["err"]


def judge(rec, opts):
    from liquid2 import DictLoader
    from liquid2.exceptions import LiquidError

    replay.LOOP_CAP = 5000 if str(rec.get("focus", "")).startswith("confused") else None
    replay.install_clock()
    out = []
    cfg = rec["cfg"]
    templates = {replay.conc(n): replay.conc(t) for n, t in rec["templates"]}
    def args():
        # fresh data for every render (ordinal drops count their accesses)
        return replay.layer(rec["data"][0])
    main = replay.conc(rec["main"])
    # the other layers of the data: front matter (overlay), template globals, environment globals
    layers = [replay.layer(x) for x in rec["data"]] + [{}, {}, {}]
    matter, tglobals, eglobals = layers[1], layers[2], layers[3]
    kw = {"globals": tglobals or None, "overlay_data": matter or None}
    env = replay.make_env(cfg, loader=DictLoader({k: v for k, v in templates.items() if k != main}), env_globals=eglobals)
    src = templates[main]
    what = constructs(rec)
    try:
        t = env.from_string(src, name=main, **kw)
    except LiquidError:
        return out
    except Exception:  # noqa: BLE001
        return out
    base = replay.outcome(lambda: t.render(**args()))
    if base.get("nonliquid"):
        return out
    try:
        s1 = str(t)
    except Exception as e:  # noqa: BLE001
        return [(f"str-raises:{type(e).__name__}:{what}", {"src": src})]
    try:
        t2 = env.from_string(s1, name=main, **kw)
    except Exception as e:  # noqa: BLE001
        return [(f"str-does-not-reparse:{type(e).__name__}:{what}", {"src": src, "str": s1, "error": str(e)[:200]})]
    r2 = replay.outcome(lambda: t2.render(**args()))
    if not _same(base, r2):
        out.append((f"reparsed-behaves-differently:{what}", {"src": src, "str": s1, "orig": base, "reparsed": r2}))
    s2 = str(t2)
    if s2 != s1:
        try:
            t3 = env.from_string(s2, name=main, **kw)
            r3 = replay.outcome(lambda: t3.render(**args()))
            if not _same(base, r3):
                out.append((f"second-round-trip-differs:{what}", {"src": src, "str1": s1, "str2": s2, "orig": base, "third": r3}))
        except Exception as e:  # noqa: BLE001
            out.append((f"second-str-does-not-reparse:{type(e).__name__}:{what}", {"src": src, "str1": s1, "str2": s2}))
    try:
        t4 = pickle.loads(pickle.dumps(t))
        r4 = replay.outcome(lambda: t4.render(**args()))
        if not _same(base, r4):
            out.append((f"unpickled-behaves-differently:{what}", {"src": src, "orig": base, "unpickled": r4}))
    except Exception as e:  # noqa: BLE001
        out.append((f"pickle-raises:{type(e).__name__}:{what}", {"src": src, "error": str(e)[:200]}))
    return out


def judge_msg(rec, opts):
    """Message templates (LiquidMsg.tla): parse(str(t)) asks the catalog for the same things, prints
    the same text and yields the same extracted messages (line numbers aside)."""
    import pickle as _p

    from liquid2 import Environment
    from liquid2.exceptions import LiquidError
    from liquid2.messages import extract_from_template

    from .c15 import Catalog, norm_extracted, shape
    env = opts.get("_env")
    if env is None:
        env = opts["_env"] = Environment()
    src = rec["src"]
    try:
        t = env.from_string(src)
    except LiquidError:
        return []

    def behaviour(tpl):
        res = []
        for n in (0, 2):
            cat = Catalog()
            try:
                o = tpl.render(m="Hello", pl="Hellos", cx="vctx", n=n, yes=True, no=False, translations=cat)
            except LiquidError as e:
                o = "error:" + type(e).__name__
            res.append((o, cat.calls))
        msgs = sorted((m["msg"]["fam"], m["msg"]["ctx"], m["msg"]["id"], m["msg"]["plural"]) for m in map(norm_extracted, extract_from_template(tpl)))
        return res, msgs

    what = shape(rec)
    base = behaviour(t)
    try:
        s1 = str(t)
        t2 = env.from_string(s1)
    except Exception as e:  # noqa: BLE001
        return [(f"str-does-not-reparse:{type(e).__name__}:{what}", {"src": src, "error": str(e)[:200]})]
    out = []
    if behaviour(t2) != base:
        out.append((f"str-changes-behaviour:{what}", {"src": src, "str": s1, "before": repr(base)[:600], "after": repr(behaviour(t2))[:600]}))
    elif str(t2) != s1:
        out.append((f"str-not-stable:{what}", {"src": src, "str": s1, "str2": str(t2)}))
    try:
        t3 = _p.loads(_p.dumps(t))
        if behaviour(t3) != base:
            out.append((f"pickle-changes-behaviour:{what}", {"src": src}))
    except Exception as e:  # noqa: BLE001
        out.append((f"pickle-raises:{type(e).__name__}:{what}", {"src": src, "error": str(e)[:200]}))
    return out


def _judge_msg(rec, opts):
    return judge_msg(rec, _MOPTS)


_MOPTS: dict = {}


def _roundtrip(env, src, data, what):
    """str() of a parsed template reparses and renders alike; [] when the source does not parse or render."""
    from liquid2.exceptions import LiquidError
    try:
        t = env.from_string(src)
        base = t.render(**data)
    except LiquidError:
        return []
    except Exception:  # noqa: BLE001
        return []
    try:
        s1 = str(t)
    except Exception as e:  # noqa: BLE001
        return [(f"str-raises:{type(e).__name__}:{what}", {"src": src})]
    try:
        got = env.from_string(s1).render(**data)
    except LiquidError as e:
        return [(f"str-does-not-reparse:{type(e).__name__}:{what}", {"src": src, "str": s1, "error": str(e)[:200]})]
    except Exception as e:  # noqa: BLE001
        return [(f"str-reparse-raises:{type(e).__name__}:{what}", {"src": src, "str": s1})]
    if got != base:
        return [(f"reparsed-behaves-differently:{what}", {"src": src, "str": s1, "orig": base, "reparsed": got})]
    return []


def judge_lit(rec, opts):
    """Literals of LiquidLit (C20's generator) through str() and back: the reparsed literal denotes the same value."""
    from liquid2 import DictLoader, Environment
    from .c20 import s_of
    kind = rec["kind"]
    if kind == "str":
        value, src, site = s_of(rec["value"]), s_of(rec["src"]), rec["site"]
        if site.endswith("-name") and value == "":
            return []
        env = Environment(loader=DictLoader({value: "HIT", "p": "<{{ v }}>"} if site.endswith("-name") else {"p": "<{{ v }}>"}))
        forms = "+".join(sorted(set(rec["forms"]))) or "empty"
        return _roundtrip(env, src, {"x": value, "h": {value: "HIT"}, "xs": [value], "y": "!"}, f"literal:{site}:{forms}")
    if kind == "num":
        env = opts.get("_env")
        if env is None:
            env = opts["_env"] = Environment(loader=DictLoader({"p": "{{ v }}"}))
        text = rec["text"]
        shape = ("int" if rec["isint"] else "float") + (":exp" if "e" in text.lower() else "") + (":big" if len(rec["digits"].lstrip("0")) > 15 else "")
        out = []
        for site, src in (("output", "{{ %s }}" % text), ("filter-arg", "{{ 1 | plus: %s }}" % text), ("assign-json", "{%% assign n = %s %%}{{ n | json }}" % text),
                          ("compare", "{%% if 1 < %s %%}HIT{%% endif %%}" % text), ("range", "{{ (1..%s) | first }}" % text),
                          ("ternary-else", "{{ 1 if false else %s }}" % text), ("array", "{{ 1, %s | last }}" % text)):
            out += _roundtrip(env, src, {}, f"number:{site}:{shape}")
        return out
    return []


RT_DATA = {"x": {"y": [1, 2], "a b": "xAB", "true": "xT", "first": "xF", "x": {"y": "xxy"}}, "y": [3, 4], "true": "T!", "a b": "AB!", "": "E!",
           "first": [5], "not": "N!", "or": "O!", "1": "one!", "x.y": "dotted!", "a": "A!", "b": "B!"}
RT_WRAPPERS = [("out", "{{ ", " }}"), ("if", "{% if ", " %}T{% else %}F{% endif %}"), ("root", "{{ [", "] }}"),
               ("for", "{% for i in ", " %}({{ i }}){% endfor %}"), ("liquid", "{% liquid echo ", " %}"), ("tstr", "{{ \"", "\" }}"),
               ("arg", "{{ y | join: ", " }}")]


def judge_src(rec, opts):
    """Enumerated expression text (MC_Strings): whatever parses must survive str() and a reparse."""
    env = opts.get("_env")
    if env is None:
        from liquid2 import DictLoader, Environment
        env = opts["_env"] = Environment(loader=DictLoader({}))
    return _roundtrip(env, rec["src"], RT_DATA, "source:" + rec["focus"])


def _judge_src(rec, opts):
    return judge_src(rec, _MOPTS)


def _judge_lit(rec, opts):
    return judge_lit(rec, _MOPTS)


def check(tier: str) -> int:
    chk = Check("C12", tier)
    chk.assumptions += ["behaviour is compared on the data sets of each focus (chosen so that every branch is taken)",
                        "TLC, Json/IOUtils modules, CPython"]
    plans = [("MC_Exprs", "exprs", {}, 1, 2), ("MC_Flow", "flow", {}, 1, 2), ("MC_Loops", "loops-single", {"Variant": '"single"'}, 1, 1),
             ("MC_Scopes", "scopes", {}, 1, 2), ("MC_Trim", "trim-markers", {"Variant": '"markers"'}, 2, 3),
             ("MC_Trim", "trim-blank", {"Variant": '"blank"'}, 2, 3), ("MC_Bool", "bool", {"Variant": '"ops"'}, 1, 1), ("MC_Bool", "bool-trees", {"Variant": '"trees"'}, 1, 1),
             ("MC_Confused", "confused", {}, 1, 1), ("MC_Sites", "sites", {}, 2, 3), ("MC_Cycles", "cycles", {}, 3, 4), ("MC_Short", "short", {}, 2, 2),
             ("MC_Layers", "layers-x", {"Name": '"x"'}, 4, 4)]
    for module, name, consts, q, t in plans:
        r = gen.run_focus(chk, module, name, max_top=t if tier == "thorough" else q, extra_constants=consts,
                          export="ExportInputs", invariants=(), timeout=6000)
        if r is None:
            continue
        try:
            gen.replay_file(chk, r.workdir / "out.ndjson", "harness.c12", "judge")
        finally:
            r.cleanup()
    from . import tlc
    for variant, top in (("tags", 1), ("filters", 1), ("comments", 3)):
        r = tlc.run("LiquidMsg", tlc.cfg_text(constants={"MaxTop": str(top), "Focus": f'"roundtrip-msg-{variant}"', "Variant": f'"{variant}"'},
                                              invariants=["Export"]), tag=f"roundtrip-msg-{variant}", timeout=3000)
        try:
            if r.error:
                chk.machinery_error = r.error
                continue
            chk.tlc(r, f"message templates ({variant})")
            gen.replay_file(chk, r.workdir / "out.ndjson", "harness.c12", "_judge_msg")
        finally:
            r.cleanup()
    # expression text (MC_Strings): every sequence of symbols inside every wrapper
    from . import tracecheck as tc
    for wname, pre, post in RT_WRAPPERS:
        r = tc.enumerate_sources(chk, f"rt-{wname}", "expr-rt", (5 if wname in ("out", "if") else 4) if tier == "thorough" else (4 if wname in ("out", "if", "root") else 3), pre, post)
        if r is None:
            continue
        try:
            gen.replay_file(chk, r.workdir / "out.ndjson", "harness.c12", "_judge_src")
        finally:
            r.cleanup()
    # markup text: tags, raw, comments, whitespace control markers, unbalanced pieces
    for alpha, n in (("markup-small", 5), ("markup", 5 if tier == "thorough" else 4)):
        r = tc.enumerate_sources(chk, f"rt-{alpha}", alpha, n, "", "")
        if r is None:
            continue
        try:
            gen.replay_file(chk, r.workdir / "out.ndjson", "harness.c12", "_judge_src")
        finally:
            r.cleanup()
    # literals (LiquidLit, the generator of C20): every spelling of every string and number at every site
    for mode, maxlen in (("str", 2 if tier == "quick" else 3), ("num", 0)):
        r = tlc.run("LiquidLit", tlc.cfg_text(constants={"Mode": f'"{mode}"', "MaxLen": str(maxlen), "Focus": f'"roundtrip-lit-{mode}"'}, invariants=["Export"]),
                    tag=f"roundtrip-lit-{mode}", timeout=6000)
        try:
            if r.error:
                chk.machinery_error = r.error
                continue
            chk.tlc(r, f"literals through str() ({mode})")
            gen.replay_file(chk, r.workdir / "out.ndjson", "harness.c12", "_judge_lit")
        finally:
            r.cleanup()
    return chk.finish()


def replay_file(path: str) -> int:
    import json
    d = json.load(open(path))
    rec = d["record"]["record"]
    if "kind" in rec or "src" in rec and "templates" not in rec and "items" not in rec:
        res = judge_lit(rec, {}) if "kind" in rec else judge_src(rec, {})
        for sig, det in res:
            print("FAILS:", sig, json.dumps(det, default=str)[:1500])
        if res:
            print(f"VIOLATION property=C12 replay={path}")
        return 1 if res else 0
    if "items" in rec:
        res = judge_msg(rec, {})
        print(rec["src"])
        for sig, det in res:
            print("FAILS:", sig, json.dumps(det, default=str)[:1500])
        return 1 if res else 0
    res = judge(rec, {})
    print(rec["templates"], rec["data"])
    for sig, det in res:
        print("FAILS:", sig, json.dumps(det, default=str)[:1500])
    if res:
        print(f"VIOLATION property=C12 replay={path}")
        return 1
    print("conforms")
    return 0
