#!/venv/bin/python
"""Generate /verif/MANIFEST.json from the table below (single source of truth)."""
from __future__ import annotations

import json
from pathlib import Path

VERIF = Path(__file__).resolve().parent.parent
ALL = [f"C{i:02d}" for i in range(1, 21)]

BASELINE = ("cd /repo && env -u LIQUID2_VERIF /venv/bin/python -m pytest -ra -q -p no:cacheprovider "
            "--timeout=900 --continue-on-collection-errors --junitxml=/tmp/liquid2_baseline.junit.xml")

CHECKS = {
    "C01": dict(
        engine="LiquidSem",
        technique="TLA+ reference semantics (LiquidSem/LiquidFilters/LiquidSrc) evaluated by TLC over programs generated "
                  "in-model (LiquidGen); every exported behaviour replayed into the library",
        text="TLC enumerates every program of each focus pool (flow, loops, loop pairs, nests, whitespace markers, blank blocks) "
             "up to the focus bound, renders it with the reference semantics under every data set and configuration of the focus "
             "and exports template text, data and expected result; the library must render exactly that text or raise that error class",
        note="bounded-exhaustive per focus (pools and MaxTop in spec/MC_*.tla); constructs of spec/UNSPECIFIED.md are outside the "
             "generated space; trusted: the reference semantics' reading of the docs, TLC, Json/IOUtils, CPython",
        ref="DESIGN.md section 6 C01",
    ),
    "C04": dict(
        engine="LiquidSem",
        technique="taint bit on every string of the TLA+ reference semantics (LiquidValues.safe through LiquidFilters/LiquidSem); TLC invariant "
                  "NoRawUnsafe over the generated programs of the escape focus; every exported behaviour replayed with auto-escape on and its output scanned",
        text="TLC checks on the reference semantics that no program of the escape focus (data saturated with < > & ' \" - raw, percent-encoded, "
             "entity-encoded, in arrays/hashes, as filter arguments and separators - through filter chains of length <=2, captures, partials, macros, "
             "loops, cycles, template strings, ternaries) outputs a significant character outside entities/engine markup; the library must produce the "
             "model's text for the modelled filters and a clean output for every built-in filter (inputs-only variant)",
        note="bounded pools (spec/MC_Escape.tla); literals carry no significant character and `safe` is not used (the property's quantifier); "
             "custom filters and user Markup subclasses are outside",
        ref="DESIGN.md section 6 C04",
    ),
    "C19": dict(
        engine="LiquidFilters",
        technique="filter laws stated over the TLA+ filter semantics (LiquidFilters.tla) and checked by TLC over enumerated argument tuples; "
                  "every (filter, input, argument) application exported by TLC replayed through the library (template and direct call)",
        text="TLC enumerates argument tuples per filter (strings incl. empty/unicode placeholders, arrays with duplicates/nil/mixed order, hashes, "
             "ints) and checks permutation/ordering/partition/inverse/idempotence laws on the model (MC_Filters laws); each application is then "
             "evaluated by the library through a template and must equal the model's value (MC_Filters apps)",
        note="bounded argument pools; floats/decimal arithmetic and date are outside the model (UNSPECIFIED.md)",
        ref="DESIGN.md section 6 C19",
    ),
    "C18": dict(
        engine="LiquidSem",
        technique="TLC invariant WsOnly on the reference semantics over all marker assignments + S->C replay of every exported behaviour",
        text="TLC checks on LiquidSem that markers / default trim / blank-block suppression change only whitespace for every program of "
             "the trim focuses (text-markup-text(-markup-text) over every markup kind, marker pair, whitespace class, 3 default trims, "
             "suppression on/off); each behaviour is rendered by the library and must equal the model's text character for character",
        note="whitespace alphabet from spec/concrete.json (ASCII controls, NEL, NBSP, EM SPACE, IDEOGRAPHIC SPACE); bounded by MaxTop",
        ref="DESIGN.md section 6 C18",
    ),
    "C02": dict(
        engine="Trace_Tokens",
        technique="sources enumerated by TLC (MC_Strings) + corpus mutants; recorded tokenize/parse/render outcomes judged by TLC "
                  "(Trace_Tokens.tla: OutcomeOK); generated programs over type-confused data replayed",
        text="every string of <=4 symbols over the markup alphabet and <=3-4 over the expression alphabet inside output/if/for/liquid "
             "wrappers, the golden corpus and its prefixes/single-edit mutants are tokenized, parsed and rendered; TLC evaluates on each "
             "recorded trace that only LiquidError subclasses escape and that str()/detailed_message()/context() succeed; the programs "
             "of the confused/flow/loops/scopes focuses (every filter and tag over wrong-typed, huge, negative, nan/inf data) are rendered "
             "with the same oracle",
        note="bounded alphabets/lengths; termination observed (every case finished), not timed; trusted: TLC, Json/IOUtils, CPython",
        ref="DESIGN.md section 6 C02",
    ),
    "C17": dict(
        engine="Trace_Tokens",
        technique="C->S trace validation: token trees recorded from tokenize() judged by TLC invariants Tiling / Nested / SpanIsText / positions",
        text="for every enumerated source (TLC, MC_Strings), the corpus and its mutants the token tree (markup tokens with nested "
             "expression, path, range, template-string and line-statement tokens) and every error/node position are recorded and TLC "
             "evaluates Tiling, Nested, SpanIsText and 0<=pos<len(source) on each trace",
        note="ASCII + placeholder alphabet (TLC strings); no token-level lexer model yet: the invariants are evaluated on observed tokens",
        ref="DESIGN.md section 6 C17",
    ),
    "C03": dict(
        engine="LiquidAsync",
        technique="programs enumerated by TLC rendered sync and async (hand-stepped coroutines, pausing loader, async and ordinal drops); "
                  "all interleavings of concurrent tasks enumerated by TLC (LiquidAsync.tla) replayed on real coroutines",
        text="every behaviour of the sites/scopes/flow/loops/exprs/lambda/undef/bool focuses: render() and render_async() give the same text "
             "or the same error class at the same template and index; analyze/analyze_async agree; ordinal drops make evaluation counts "
             "visible; partials live in sub-directories behind a loader whose async path suspends; every interleaving of two concurrent "
             "renders (6 task templates using include/render/extends/macros/counters/cycles over a shared Environment, with and without a "
             "shared caching loader) yields each task's solo output",
        note="K=2 tasks; await points are the harness doubles'; file-system loaders' executor path is covered by C13/C14 with asyncio.run",
        ref="DESIGN.md section 6 C03",
    ),
    "C06": dict(
        engine="LiquidLimits",
        technique="TLA+ model of the limited-buffer chain (LiquidLimits.tla) checked by TLC; consumption measures of every program computed by "
                  "TLC from the reference semantics (LiquidSem!Measure); library rendered under limits around the measures, band oracle",
        text="TLC checks ChainWithinLimit/ReturnedWithinLimit/Complete on the buffer mechanism for all operation sequences (and refutes them "
             "with the carry dropped); for every program of the limits focuses (multi-byte and CR/LF text through nested captures, suppressed "
             "blank blocks, partials, macros; loop nests <=3 deep over for/tablerow/include-for/render-for/macros/partials with break; cyclic "
             "include/render/extends graphs) the library runs under output and loop limits {lower-1, lower, lower+1, upper-1, upper, upper+1, "
             "huge}: lower>limit must raise the matching error, upper<=limit must give exactly the unlimited output, cycles must end in "
             "ContextDepthError/TemplateInheritanceError, and the namespace score after a success is within its limit",
        note="band oracle (either outcome accepted between the measures); namespace limit judged only through scores observed on a caller-owned "
             "context; block.super buffers are outside this focus",
        ref="DESIGN.md section 6 C06",
    ),
    "C07": dict(
        engine="LiquidSem",
        technique="TLC invariant RenderIsolated (two-way non-interference) on the reference + S->C replay of the scopes and lambda focuses "
                  "+ scope-stack discipline observed on a caller-owned RenderContext",
        text="TLC checks for every program of the scopes focus (assign/capture/counters/for/with/macro+call/include/render with/for/as/kwargs "
             "over a shared name pool, errors raised inside blocks) that a top-level render contributes what it renders alone and leaves the "
             "rest of the caller's output unchanged; every behaviour (and the lambda focus: arrow-function parameters shadowing an outer name) "
             "is rendered by the library and must equal the model; scope.size()/loops/template of a caller-owned context are equal before and "
             "after render_with_context returns or raises",
        note="bounded pools (spec/MC_Scopes.tla, MC_Lambda.tla); abandoned generators rely on CPython refcounting",
        ref="DESIGN.md section 6 C07",
    ),
    "C08": dict(
        engine="LiquidInherit",
        technique="TLA+ model of block-stack resolution (LiquidSem) checked by TLC against an independent reference fold (LiquidInherit!Page) "
                  "over all chains; every chain replayed through DictLoader/CachingDictLoader, sync and async",
        text="every chain of <=2 (thorough 3) templates, each independently omitting/defining/super-ing/requiring two block names with optional "
             "nesting, plus duplicate blocks, two extends, mismatched endblock, circular and dangling chains, chains entered through include "
             "and render, and a root parent including a partial that extends another chain: TLC proves stacks = fold and rejection of "
             "malformed chains on the model and exports each case; the library must give the same page or error class",
        note="two block names; block bodies are text/global output/block.super; text before extends is outside the space (docs silent)",
        ref="DESIGN.md section 6 C08",
    ),
    "C09": dict(
        engine="LiquidHistory",
        technique="TLA+ model of call histories on long-lived objects (LiquidHistory.tla), HistoryIndependent checked by TLC (refuted with "
                  "the date-memo deviation); every history replayed on shared Environment/loader/Template objects under a controlled clock",
        text="all histories of 2 calls (exhaustive) and random ones of 6-8 over {render, render_async, analyze, from_string, get_template} x 7 "
             "templates (counters, cycles, loop offsets, captures/macros, inheritance, partials, clock values) x 2 data sets x faults at the "
             "k-th data access x 2 differently configured environments x clock ticks; each step must equal the same call on freshly built "
             "objects at the same clock value",
        note="oracle is library-on-fresh-objects (the model states only that no state persists); concurrency of renders is covered by C03's schedules",
        ref="DESIGN.md section 6 C09",
    ),
    "C10": dict(
        engine="LiquidSem",
        technique="TLC enumeration of every subset of namespace layers binding one name (MC_Layers) replayed into the library; deep "
                  "equality of caller data before/after every replay of the confused/loops/scopes/flow inputs",
        text="all 16 subsets of the four global layers x counter/local/capture x block scopes (with, nested with, for, include/render "
             "arguments) for the names x, now, today: the value printed inside and after the block must be the one LiquidSem!Resolve gives; "
             "every filter over every container (incl. nan/inf/huge ints) is rendered on a deep copy handed over through each layer in turn "
             "and the data must be unchanged",
        note="clock replaced by a fixed double for now/today; JSON-like data only",
        ref="DESIGN.md section 6 C10",
    ),
    "C12": dict(
        engine="LiquidSrc",
        technique="programs enumerated by TLC (LiquidSrc = specification of valid text per AST) round-tripped through str()/parse and pickle in the library",
        text="for every program of the exprs, sites, flow, loops, scopes, bool, confused and whitespace-marker focuses: parse(str(t)) must "
             "succeed and render like t on every data set of the focus, str must be stable after one round trip (or the third parse still "
             "behaves the same), and pickle round trips behave the same",
        note="behaviour compared library-vs-library on the focus data (branch-covering by construction of the pools)",
        ref="DESIGN.md section 6 C12",
    ),
    "C16": dict(
        engine="LiquidSem",
        technique="TLC: default-policy result + touch-mode result per program (PolicyIrrelevantWithoutTouch on the reference); library rendered "
                  "under Undefined/StrictUndefined/FalsyStrictUndefined and compared relationally",
        text="undef focus (every flow site x data with any subset of variables/properties deleted), flow and bool focuses: default never raises "
             "UndefinedError and equals the model; a strict/falsy-strict success equals the default output; UndefinedError under a strict policy "
             "only if the model's run touched an undefined (eager one-sided reading of 'uses')",
        note="band oracle for clause (c); bounded pools",
        ref="DESIGN.md section 6 C16",
    ),
    "C13": dict(
        engine="LiquidPaths",
        technique="TLA+ model of name resolution (LiquidPaths.tla: OS walk + loader guards), Confined checked by TLC over all names; "
                  "every name replayed against every loader kind / access path on a real directory tree",
        text="TLC enumerates every template name of <=2 (thorough 3) segments over {plain, dotted, '.', '..', empty, directory, outside-file "
             "names} x {relative, '/', absolute base path} for one and two search paths, with and without default extension, checks that what "
             "is served lies below a search path, and exports the expected file or not-found; FileSystemLoader, CachingFileSystemLoader, "
             "ChoiceLoader and PackageLoader are asked sync and async, from Python and through include/render/extends",
        note="no symlinks; POSIX; the model's Confined is shown non-vacuous by refuting it with the parent-directory guard removed",
        ref="DESIGN.md section 6 C13",
    ),
    "C14": dict(
        engine="LiquidCache",
        technique="TLA+ model of the caching loaders (LiquidCache.tla) checked by TLC; every bounded history "
                  "TLC enumerates (and random long ones from -simulate) replayed into the real loaders",
        text="TLC checks capacity, LRU order (independent time-stamp formulation), transparency w.r.t. the uncached "
             "reference, no globals carry-over and termination on LiquidCache.tla for auto_reload x freshness x capacity; "
             "every history of the bounded model (sync + 2 interleaved async tasks, modify/delete/fault) is exported by TLC "
             "and replayed step by step into CachingLoaderMixin, CachingChoiceLoader, CachingDictLoader and "
             "CachingFileSystemLoader, comparing rendered text/error class, len(cache) and inner-loader calls with TLC's values",
        note="bounded (2-3 names, 2 namespaces, <=4-5 ops exhaustive, <=25 random); await points are those of the harness's "
             "inner-loader double; trusted: TLC, Json/IOUtils modules, CPython",
        ref="DESIGN.md section 6 C14",
    ),
}

NA_REASON = "check not built yet in this round (planned: see DESIGN.md section 11); nothing is claimed"


def main() -> None:
    checks = []
    for pid in ALL:
        if pid not in CHECKS:
            continue
        c = CHECKS[pid]
        checks.append({
            "property_id": pid,
            "quick_cmd": f"/venv/bin/python harness/check.py {pid} --tier quick",
            "thorough_cmd": f"/venv/bin/python harness/check.py {pid} --tier thorough",
            "evidence_file": f"/verif/evidence/{pid}.json",
            "replay_cmd_template": f"/venv/bin/python harness/check.py {pid} --replay {{path}}",
            "engine": c["engine"],
            "level_claimed": {"category": c.get("level", "model_checking"), "text": c["text"],
                              "design_ref": c["ref"]},
            "level_note": c["note"],
            "technique": c["technique"],
        })
    man = {
        "version": 1,
        "setup_cmd": "/venv/bin/python harness/setup.py",
        "hooks": {
            "guard": "LIQUID2_VERIF",
            "enable": "the harness sets LIQUID2_VERIF=1 in its own processes and observes the library through "
                      "public calls and harness-owned doubles; no source hooks are compiled into /repo",
            "baseline_off_cmd": BASELINE,
            "source_commits": [],
            "add_only": True,
        },
        "engines": [
            {"name": c["engine"], "path": "/verif/spec", "serves_properties": [pid],
             "kind_free_text": "TLA+ specification checked with TLC + conformance replay (harness/%s.py)" % pid.lower()}
            for pid, c in CHECKS.items()
        ],
        "checks": checks,
        "not_applicable": [{"property_id": pid, "reason": NA_REASON} for pid in ALL if pid not in CHECKS],
        "notes": "All checks: exit 0 = held, 1 = VIOLATION line, 2 = machinery failure. Known findings: /verif/known_findings.json.",
    }
    (VERIF / "MANIFEST.json").write_text(json.dumps(man, indent=1) + "\n")


if __name__ == "__main__":
    main()
