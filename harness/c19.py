"""C19 - built-in filters obey their defining laws.

TLC checks the laws (MC_Filters.tla: sort is an ordered permutation, reverse an involution,
uniq idempotent/order preserving, where/reject partition, find = first(where), key and
arrow-function forms agree, split/join inverse, strip = lstrip o rstrip, arithmetic identities,
Euclid for divided_by/modulo ...) on the reference definitions for every input of the pools,
and exports every single application it evaluated; the library applies each through a
template ({% assign r = x | f: a, b %}{{ r | json }}) and, where possible, by calling
env.filters[name] directly - both results must equal the model's value.  The lambda focus
(key form = arrow form on the library itself) rides along.
"""
from __future__ import annotations

import json

from . import gen, replay, tlc
from .common import Check


def jsonable(v):
    if isinstance(v, range):
        return list(v)
    if isinstance(v, (list, tuple)):
        return [jsonable(x) for x in v]
    if isinstance(v, dict):
        return {k: jsonable(x) for k, x in v.items()}
    return v


def judge(rec, opts):
    from liquid2 import Environment
    from liquid2.exceptions import LiquidError
    out = []
    name = rec["filter"]
    left = replay.to_py(rec["left"])
    args = [replay.to_py(a) for a in rec["args"]]
    if rec["ok"] and rec["result"]["t"] == "range":
        return out          # a range cannot travel through the json filter
    want = jsonable(replay.to_py(rec["result"])) if rec["ok"] else None
    alts = [jsonable(replay.to_py(a)) for a in rec.get("alts", [])]
    env = opts.get("_env")
    if env is None:
        env = opts["_env"] = Environment()
    argsrc = ", ".join(f"a{i}" for i in range(len(args)))
    src = "{% assign r = x | " + name + (": " + argsrc if args else "") + " %}{{ r | json }}"
    data = {"x": left, **{f"a{i}": a for i, a in enumerate(args)}}
    shape = f"{rec['left']['t']}:" + ",".join(a["t"] for a in rec["args"])
    try:
        got = {"ok": True, "v": json.loads(env.from_string(src).render(**data))}
    except LiquidError as e:
        got = {"ok": False, "err": type(e).__name__}
    except Exception as e:  # noqa: BLE001
        got = {"ok": False, "err": "non-liquid:" + type(e).__name__}
    if rec["ok"]:
        if not got["ok"] or (got["v"] != want and got["v"] not in alts) or (isinstance(want, (int, float)) and not isinstance(want, bool)
                                                                              and type(got["v"]) is not type(want)):
            out.append((f"filter-result:{name}:{shape}", {"want": want, "got": got, "src": src, "data": repr(data)}))
    elif got["ok"] or (rec["err"] != got["err"] and not got["err"].startswith("Liquid")):
        out.append((f"filter-error:{name}:{shape}", {"want": rec["err"], "got": got, "src": src, "data": repr(data)}))
    # direct call of the registered callable (no context needed for plain functions)
    fn = env.filters.get(name)
    if rec["ok"] and fn is not None and not getattr(fn, "with_context", False) and not getattr(fn, "with_environment", False):
        try:
            dv = jsonable(fn(left, *args))
            dv = json.loads(json.dumps(dv, default=str))
            if dv != want and dv not in alts and not (dv is None and want is None):
                out.append((f"filter-direct-call:{name}:{shape}", {"want": want, "got": dv}))
        except Exception as e:  # noqa: BLE001
            out.append((f"filter-direct-call-raises:{name}:{shape}", {"want": want, "got": repr(e)}))
    return out


def _judge(rec, opts):
    return judge(rec, _OPTS)


_OPTS: dict = {}


def check(tier: str) -> int:
    chk = Check("C19", tier)
    chk.assumptions += ["floats, full-Unicode case mapping, base64/percent-encoding tables are outside the model (DESIGN.md section 6 C19)",
                        "Python '==' corner cases (0/False, 1/True) are UNSPECIFIED and excluded", "TLC, Json/IOUtils modules, CPython"]
    r = tlc.run("MC_Filters", tlc.cfg_text(constants={"Mode": '"laws"', "Focus": '"filters"'}, invariants=["LawsHold"]),
                tag="filter-laws", extra_files={"concrete.json": gen.CONCRETE}, timeout=3000)
    try:
        if r.error:
            chk.machinery_error = r.error
        elif r.invariant_violated:
            chk.spec_violation(r, "filter laws")
        else:
            chk.tlc(r, "17 law families over all inputs of the pools (arrays <= 3 elements, strings, ints, hashes with duplicates/missing keys)")
    finally:
        r.cleanup()
    r = tlc.run("MC_Filters", tlc.cfg_text(constants={"Mode": '"apps"', "Focus": '"filters"'}, invariants=["Export"]),
                tag="filter-apps", extra_files={"concrete.json": gen.CONCRETE}, timeout=3000)
    try:
        if r.error:
            chk.machinery_error = r.error
        else:
            chk.tlc(r, "every (filter, left, arguments) application of the pools")
            gen.replay_file(chk, r.workdir / "out.ndjson", "harness.c19", "_judge")
    finally:
        r.cleanup()
    # key form = arrow form, and the array filters inside templates
    from . import c01
    r = gen.run_focus(chk, "MC_Lambda", "lambda", max_top=4)
    if r is not None:
        try:
            gen.replay_file(chk, r.workdir / "out.ndjson", "harness.c01", "judge")
        finally:
            r.cleanup()
    return chk.finish()


def replay_file(path: str) -> int:
    d = json.load(open(path))
    rec = d["record"].get("record")
    if rec is None:
        print("\n".join(d["record"].get("trace", [])))
        return 1
    if "filter" not in rec:
        from . import c01
        return c01.replay_file(path)
    res = judge(rec, {})
    print(rec)
    for sig, det in res:
        print("FAILS:", sig, det)
    if res:
        print(f"VIOLATION property=C19 replay={path}")
        return 1
    print("conforms")
    return 0
