"""C06 - configured resource limits are hard bounds.

TLC (i) checks the buffer-chain mechanism LiquidLimits.tla (ChainWithinLimit,
ReturnedWithinLimit, Complete; refuted with the carry dropped) and (ii) renders every program
of the limits focuses with the reference semantics, exporting the consumption measures of the
unlimited run: bytes returned / peak of the buffer chain, iterations actually run in a nest /
product of the lengths along it.  The harness renders each program under limits around those
measures (c-1, c, c+1 and a huge one) and judges with bands, because a library may account
more conservatively than the property demands:
    lower measure > limit            -> must raise the matching ResourceLimitError
    upper measure <= limit           -> must succeed with exactly the unlimited output
    in between                       -> either; a success still has to be exact and within the limit
Cyclic include/render/extends graphs must end in ContextDepthError / TemplateInheritanceError;
after a successful render under a namespace limit the locals' score is within it.
"""
from __future__ import annotations

import json
from io import StringIO

from . import gen, replay, tlc
from .c01 import constructs
from .common import Check

HUGE = 10 ** 9


def run_with(rec, limits):
    r2 = dict(rec, cfg=dict(rec["cfg"], limits=limits))
    got, _ = replay.render_record(r2)
    return got


def main_src(rec):
    return next(replay.conc(t) for n, t in rec["templates"] if replay.conc(n) == replay.conc(rec["main"]))


def band(what, lower, upper, limit, got, expected_out, errcls, out, rec, bytes_of=None):
    cls_ok = (not got["ok"]) and errcls in got.get("mro", [])
    tag = f"{what}:limit={'lower-1' if limit == lower - 1 else 'lower' if limit == lower else 'upper' if limit == upper else 'upper+1' if limit == upper + 1 else 'mid'}"
    cons = constructs(rec)
    if got.get("nonliquid"):
        out.append((f"{what}:non-liquid:{got['err']}:{cons}", {"limit": limit, "got": got}))
        return
    if not got["ok"] and not cls_ok:
        out.append((f"{what}:wrong-error:{got['err']}:{cons}", {"limit": limit, "got": got, "lower": lower, "upper": upper}))
        return
    if lower > limit:
        if got["ok"]:
            out.append((f"{what}:limit-exceeded-without-error:{cons}", {"limit": limit, "lower": lower, "got": got}))
        return
    if got["ok"]:
        if got["out"] != expected_out:
            out.append((f"{what}:limit-changes-output:{cons}", {"limit": limit, "expected": expected_out, "got": got["out"]}))
        elif bytes_of is not None and bytes_of(got["out"]) > limit:
            out.append((f"{what}:returned-more-than-limit:{cons}", {"limit": limit, "got": got}))
        return
    if upper <= limit:
        out.append((f"{what}:error-below-limit:{cons}", {"limit": limit, "upper": upper, "got": got}))


def judge(rec, opts):
    out = []
    exp = rec["expect"]
    m = rec["measures"]
    base = run_with(rec, {})
    if not exp["ok"]:
        # cyclic graphs and other failing programs: the class must be the model's, never RecursionError
        if base.get("nonliquid") or base["ok"] or exp["err"] not in base.get("mro", []):
            out.append((f"unlimited:outcome:{constructs(rec)}", {"expected": exp, "got": base}))
        return out
    f = replay.compare(rec, base)
    if f is not None:
        out.append((f"unlimited:{f['clause']}:{constructs(rec)}", f))
        return out
    eout = replay.conc(exp["out"])
    nbytes = lambda s: len(s.encode("utf-8", "surrogatepass"))  # noqa: E731
    for L in sorted({m["outbytes"] - 1, m["outbytes"], m["outbytes"] + 1, m["peak"] - 1, m["peak"], m["peak"] + 1, HUGE}):
        if L < 1:
            continue
        band("output", m["outbytes"], m["peak"], L, run_with(rec, {"out": L}), eout, "OutputStreamLimitError", out, rec, nbytes)
    if m["prod"] > 0:
        for L in sorted({m["iters"] - 1, m["iters"], m["iters"] + 1, m["prod"] - 1, m["prod"], m["prod"] + 1, HUGE}):
            if L < 1:
                continue
            band("loop", m["iters"], m["prod"], L, run_with(rec, {"loop": L}), eout, "LoopIterationLimitError", out, rec)
    # namespace: the values the local namespaces held at their (approximate) peak, weighed as the
    # library weighs them; one below that score the render must fail with the namespace error
    import sys as _sys
    vals = [replay.to_py(v) for v in m.get("nsvals", [])]
    if vals:
        score = sum(_sys.getsizeof(v, 1) for v in vals)
        got = run_with(rec, {"ns": score - 1})
        if got["ok"] or "LocalNamespaceLimitError" not in got.get("mro", []):
            out.append((f"namespace:limit-exceeded-without-error:{constructs(rec)}", {"limit": score - 1, "values": repr(vals), "got": got}))
        # ... and at exactly that score it must succeed: the limit is a bound on what the namespace holds,
        # not on what it held plus what replaces it
        got = run_with(rec, {"ns": score})
        # (exact for the namespace focus, whose values are ASCII and never shrink; elsewhere `nsvals` is the
        # last state, not necessarily the heaviest)
        if "namespace" in rec.get("focus", "") and not (got["ok"] and got["out"] == eout):
            out.append((f"namespace:error-within-limit:{constructs(rec)}", {"limit": score, "values": repr(vals), "got": got}))
    # context depth: the model's outcome under every small limit; at the first limit that suffices the render is
    # the unlimited one, one below it fails with the depth error
    depths = m.get("depths") or []
    need = next((i + 1 for i, e in enumerate(depths) if e == ""), None)
    # (block scopes start a scope stack of their own in the library, not in the model: chains are left out)
    inherits = any(f"'{n}'" in main_src(rec) for n in ("xa", "xb", "xs", "xr", "xl", "xm", "lay", "lb"))
    if need is not None and not inherits and all(e == "" for e in depths[need - 1:]):
        got = run_with(rec, {"depth": need})
        if not (got["ok"] and got["out"] == eout):
            out.append((f"depth:error-within-limit:{constructs(rec)}", {"limit": need, "got": got}))
        if need > 1 and depths[need - 2] == "ContextDepthError":
            got = run_with(rec, {"depth": need - 1})
            if got["ok"] or "ContextDepthError" not in got.get("mro", []):
                out.append((f"depth:limit-exceeded-without-error:{constructs(rec)}", {"limit": need - 1, "got": got}))
    # a huge limit changes nothing; after a success the score is within the limit
    got = run_with(rec, {"ns": HUGE})
    if not (got["ok"] and got["out"] == eout):
        out.append((f"namespace:limit-changes-output:{constructs(rec)}", {"got": got}))
    score = ns_score(rec, HUGE)
    if score is not None and score[1] > 0:
        for L in (max(1, score[1] - 1), score[1]):
            s2 = ns_score(rec, L)
            if s2 is not None and s2[0] and s2[1] > L:
                out.append((f"namespace:score-exceeds-limit:{constructs(rec)}", {"limit": L, "score": s2[1]}))
    return out


def ns_score(rec, limit):
    """Render on a caller-owned context under a namespace limit: (succeeded, final score of the locals)."""
    from liquid2 import DictLoader, RenderContext
    from liquid2.exceptions import LiquidError
    templates = {replay.conc(n): replay.conc(t) for n, t in rec["templates"]}
    env = replay.make_env(dict(rec["cfg"], limits={"ns": limit}), loader=DictLoader(dict(templates)))
    try:
        t = env.from_string(templates[replay.conc(rec["main"])], name="main")
        ctx = RenderContext(t, global_data=t.make_globals(replay.layer(rec["data"][0])))
        t.render_with_context(ctx, StringIO())
        return True, ctx.get_size_of_locals()
    except LiquidError:
        return False, 0
    except Exception:  # noqa: BLE001
        return None


def check(tier: str) -> int:
    chk = Check("C06", tier)
    chk.assumptions += ["band oracle: between the lower and the upper measure either outcome is accepted",
                        "render / include ... for and tablerow count as loops (environment.md)",
                        "namespace scores are CPython's sys.getsizeof: only 'score after success <= limit' is judged",
                        "TLC, Json/IOUtils modules, CPython"]
    # (i) the mechanism
    for dev, want_violation in (("{}", False), ('{"DropCarry"}', True)):
        consts = {"Limit": "6", "MaxWrite": "3", "MaxOps": "7" if tier == "thorough" else "6", "Dev": dev}
        r = tlc.run("LiquidLimits", tlc.cfg_text(constants=consts, invariants=["ChainWithinLimit", "ReturnedWithinLimit", "Complete"]),
                    tag="limits-mech", timeout=1200)
        try:
            if r.error:
                chk.machinery_error = r.error
            elif bool(r.invariant_violated) != want_violation:
                if want_violation:
                    chk.machinery_error = "vacuity: LiquidLimits holds even with the carry dropped"
                else:
                    chk.spec_violation(r, "LiquidLimits")
            elif not want_violation:
                chk.tlc(r, "buffer-chain mechanism: all operation sequences", constants=consts)
        finally:
            r.cleanup()
    # (ii) programs
    plans = [("output", 2, 3), ("loops", 2, 3), ("cycles", 2, 2), ("namespace", 3, 4)]
    for variant, q, t in plans:
        r = gen.run_focus(chk, "MC_Limits", f"limits-{variant}", max_top=t if tier == "thorough" else q,
                          extra_constants={"Variant": f'"{variant}"'}, invariants=("MeasuresConsistent",), export="ExportMeasures", timeout=6000)
        if r is None:
            continue
        try:
            gen.replay_file(chk, r.workdir / "out.ndjson", "harness.c06", "judge")
        finally:
            r.cleanup()
    return chk.finish()


def replay_file(path: str) -> int:
    d = json.load(open(path))
    rec = d["record"].get("record")
    if rec is None:
        print("\n".join(d["record"].get("trace", [])))
        return 1
    res = judge(rec, {})
    print(rec["templates"][0], rec["measures"], rec["expect"])
    for sig, det in res:
        print("FAILS:", sig, json.dumps(det, default=str)[:800])
    if res:
        print(f"VIOLATION property=C06 replay={path}")
        return 1
    print("conforms")
    return 0
