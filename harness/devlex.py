#!/venv/bin/python
"""Development helper: run the lexer machine focuses and print grouped mismatches. usage: devlex.py [focus ...] [--shrink N]"""
import collections, json, sys
from pathlib import Path
sys.path.insert(0, str(Path(__file__).resolve().parent.parent))
from harness import lexer
from harness.common import Check

def main():
    args = [a for a in sys.argv[1:] if not a.startswith("--")]
    shrink = int(sys.argv[sys.argv.index("--shrink") + 1]) if "--shrink" in sys.argv else 0
    tier = "thorough" if "--thorough" in sys.argv else "quick"
    chk = Check("DEV", tier)
    lexer.run(chk, tier, tuple(a for a in args if a.startswith("lx-")) or None, shrink)
    if chk.machinery_error:
        e = chk.machinery_error; i = e.find("Error:"); print(e[i:i+3000] if i >= 0 else e[-3000:])
    print(chk.cov.get("evaluations"), "evaluations")
    for k, v in list(chk._viol.items())[:40]:
        print(k, json.dumps(v)[:700])
    print(len(chk._viol), "signatures")
main()
