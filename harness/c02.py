"""C02 - parsing and rendering are total over the LiquidError error model.

Part 1 (C->S): TLC enumerates sources (MC_Strings), the corpus and its mutants are added, the
library's tokenize/parse/render outcome is recorded for each, and TLC judges every trace with
OutcomeOK of Trace_Tokens.tla: only LiquidError subclasses escape, and str()/detailed_message()/
context() of every error succeed.
Part 2 (S->C): the generated programs of the C01 focuses plus the type-confused focus
(MC_Confused) are rendered; any exception outside the error model, or an unprintable error,
is a violation (the expected result of the model is not compared here - that is C01).
"""
from __future__ import annotations

import os

from . import c17, gen, replay
from .common import Check


def mine(clause: str) -> bool:
    return "-raised-" in clause or ("-error-" in clause and not clause.endswith(("-position", "-context")))


def judge(rec, opts):
    got, _ = replay.render_record(rec)
    if got.get("nonliquid"):
        return [(f"render-raised-{got['err']}@{got.get('site')}", {"got": got})]
    if not got["ok"] and got.get("probe"):
        return [(f"error-probe:{got['probe']}:{rec['focus']}", {"got": got})]
    return []


CONFUSED = [None, True, [1], {"a": 1}, float("inf"), float("nan"), "abc", "", 10 ** 30, -1, 1.5, range(3)]


def judge_msg(rec, opts):
    """Message templates (LiquidMsg.tla) with type-confused counts, contexts, plurals and messages:
    whatever the data, only LiquidError subclasses may escape and every error must be printable."""
    from liquid2 import Environment
    from liquid2.exceptions import LiquidError
    env = opts.get("_env")
    if env is None:
        env = opts["_env"] = Environment()
    try:
        t = env.from_string(rec["src"])
    except LiquidError:
        return []
    out = []
    kinds = "+".join(f"{it['k']}:{it['f']}" for it in rec["items"])[:60]
    for name in ("n", "cx", "pl", "m", "translations"):
        for v in CONFUSED:
            data = {"m": "Hello", "pl": "Hellos", "cx": "vctx", "n": 2, "yes": True, "no": False}
            data[name] = v
            for mode in ("sync", "async"):
                try:
                    if mode == "sync":
                        t.render(**data)
                    else:
                        import asyncio
                        asyncio.run(t.render_async(**data))
                except LiquidError as e:
                    p = replay.error_probe(e)
                    if p:
                        out.append((f"error-probe:{p}:translate:{kinds}", {"src": rec["src"], "data": repr(data)}))
                except Exception as e:  # noqa: BLE001
                    out.append((f"render-raised-{type(e).__name__}@{replay.raise_site(e)}", {"src": rec["src"], "data": repr(data), "mode": mode}))
                if out:
                    return out[:1]
    return out


def _judge_msg(rec, opts):
    return judge_msg(rec, _MOPTS)


_MOPTS: dict = {}


def signature(b) -> str:
    tr = b["trace"]
    return b["clause"]


def check(tier: str) -> int:
    import shutil

    from . import tracecheck as tc
    from .common import SCRATCH
    chk = Check("C02", tier)
    chk.assumptions += ["block nesting bounded (Python's own recursion limit is not the subject)",
                        "time bound: every case finished (no hang) - wall time is reported, not asserted",
                        "TLC, Json/IOUtils modules, CPython"]
    lines = c17.sources(chk, tier)
    out = SCRATCH / f"C02-traces-{os.getpid()}"
    shutil.rmtree(out, ignore_errors=True)
    shards = tc.record_sources(lines, out)
    try:
        bad = tc.validate(chk, shards, "C02")
    finally:
        shutil.rmtree(out, ignore_errors=True)
    for b in bad:
        if mine(b["clause"]):
            chk.violation(signature(b), b)
    for l in lines[:: max(1, len(lines) // 3)][:3]:
        chk.cov["samples"].append(l)
    focuses = [("MC_Confused", "confused", {}, 1, 1), ("MC_Flow", "flow", {}, 1, 1),
               ("MC_Loops", "loops-single", {"Variant": '"single"'}, 1, 1),
               ("MC_Scopes", "scopes", {}, 1, 2), ("MC_Sites", "sites", {}, 2, 3), ("MC_Exprs", "exprs", {}, 1, 1)]
    for module, name, consts, q, t in focuses:
        r = gen.run_focus(chk, module, name, max_top=t if tier == "thorough" else q, extra_constants=consts,
                          export="ExportInputs", invariants=())
        if r is None:
            continue
        try:
            gen.replay_file(chk, r.workdir / "out.ndjson", "harness.c02", "judge")
        finally:
            r.cleanup()
    from . import tlc
    for variant in ("tags", "filters"):
        r = tlc.run("LiquidMsg", tlc.cfg_text(constants={"MaxTop": "1", "Focus": f'"confused-msg-{variant}"', "Variant": f'"{variant}"'},
                                              invariants=["Export"]), tag=f"confused-msg-{variant}", timeout=3000)
        try:
            if r.error:
                chk.machinery_error = r.error
                continue
            chk.tlc(r, f"message templates with type-confused data ({variant})")
            gen.replay_file(chk, r.workdir / "out.ndjson", "harness.c02", "_judge_msg")
        finally:
            r.cleanup()
    return chk.finish()


def replay_file(path: str) -> int:
    import json
    d = json.load(open(path))
    rec = d["record"]
    if "trace" in rec:
        return c17.replay_file(path)
    r = rec["record"]
    got, _ = replay.render_record(r)
    print(r["templates"], r["data"])
    print("got:", got)
    return 1 if (got.get("nonliquid") or got.get("probe")) else 0
