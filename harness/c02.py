"""C02 - parsing and rendering are total over the LiquidError error model.

Part 1 (C->S): TLC enumerates sources (MC_Strings), the corpus and its mutants are added, the
library's tokenize/parse/render outcome is recorded for each, and TLC judges every trace with
OutcomeOK of Trace_Tokens.tla: only LiquidError subclasses escape, and str()/detailed_message()/
context() of every error succeed.
Part 2 (S->C): the generated programs of the C01 focuses plus the type-confused focus
(MC_Confused) are rendered; any exception outside the error model, or an unprintable error,
is a violation (the expected result of the model is not compared here - that is C01).
"""
from __future__ import annotations

import os

from . import c17, gen, replay
from .common import Check


def mine(clause: str) -> bool:
    return "-raised-" in clause or ("-error-" in clause and not clause.endswith(("-position", "-context")))


SLOW = 2.5     # seconds; the renders of these focuses take milliseconds
HANG = 40      # seconds after which the watchdog of gen.replay_file gives a record up


def judge(rec, opts):
    import time
    if rec.get("focus") == "confused":
        # a loop iteration limit is configured: what a huge range or array costs is bounded by it, not by its length
        rec = dict(rec, cfg=dict(rec["cfg"], limits={"loop": 10000}))
    t0 = time.process_time()
    got, _ = replay.render_record(rec)
    dt = time.process_time() - t0
    if dt > SLOW:
        # "returns in time bounded by the size of the input and the configured limits": a few symbols, a number
        from .c01 import constructs
        return [(f"slow-render:{constructs(rec)}", {"seconds": round(dt, 1), "got": got})]
    if got.get("nonliquid"):
        return [(f"render-raised-{got['err']}@{got.get('site')}", {"got": got})]
    if not got["ok"] and got.get("probe"):
        return [(f"error-probe:{got['probe']}:{rec['focus']}", {"got": got})]
    return []


CONFUSED = [None, True, [1], {"a": 1}, float("inf"), float("nan"), "abc", "", 10 ** 30, -1, 1.5, range(3)]


def judge_msg(rec, opts):
    """Message templates (LiquidMsg.tla) with type-confused counts, contexts, plurals and messages:
    whatever the data, only LiquidError subclasses may escape and every error must be printable."""
    from liquid2 import Environment
    from liquid2.exceptions import LiquidError
    env = opts.get("_env")
    if env is None:
        env = opts["_env"] = Environment()
    try:
        t = env.from_string(rec["src"])
    except LiquidError:
        return []
    out = []
    kinds = "+".join(f"{it['k']}:{it['f']}" for it in rec["items"])[:60]
    for name in ("n", "cx", "pl", "m", "translations"):
        for v in CONFUSED:
            data = {"m": "Hello", "pl": "Hellos", "cx": "vctx", "n": 2, "yes": True, "no": False}
            data[name] = v
            for mode in ("sync", "async"):
                try:
                    if mode == "sync":
                        t.render(**data)
                    else:
                        import asyncio
                        asyncio.run(t.render_async(**data))
                except LiquidError as e:
                    p = replay.error_probe(e)
                    if p:
                        out.append((f"error-probe:{p}:translate:{kinds}", {"src": rec["src"], "data": repr(data)}))
                except Exception as e:  # noqa: BLE001
                    out.append((f"render-raised-{type(e).__name__}@{replay.raise_site(e)}", {"src": rec["src"], "data": repr(data), "mode": mode}))
                if out:
                    return out[:1]
    return out


def _judge_msg(rec, opts):
    return judge_msg(rec, _MOPTS)


# enumerated source text inside wrappers that reach particular parsers, rendered with hostile data
DIGITS = "9" * 5000
SRC_DATA = {"x": {"y": [1, 2], "a b": "xAB"}, "y": [3, 4], "a": [1, 2, 3], "b": True, "k": "a", "true": "T!", "a b": "AB!", "": "E!", "%": "P!",
            ")": "R!", "(": "L!", "s": "%s", "n": 10 ** 5000}
SRC_WRAPPERS = [("kwarg", "expr", "{{ a | where: k: ", " }}"), ("kwarg2", "expr-small", "{{ a | find: 'k', v: ", " }}"),
                ("trvar", "expr-rt", "{% translate %}{{ [", "] }}{% endtranslate %}"), ("trvar2", "expr-rt", "{% translate x: ", " %}{{ x }}{% endtranslate %}"),
                ("html", "html", "{{ '", "' | strip_html }}"), ("html-data", "html", "{% capture h %}", "{% endcapture %}{{ h | strip_html }}"),
                ("big", "expr-big", "{{ ", " }}"), ("big-if", "expr-big", "{% if ", " %}t{% endif %}"), ("big-for", "expr-big", "{% for i in ", " limit: 2 %}{{ i }}{% endfor %}")]


def judge_src(rec, opts):
    import time
    from liquid2 import DictLoader, Environment
    from liquid2.exceptions import LiquidError
    env = opts.get("_env")
    if env is None:
        env = opts["_env"] = Environment(loader=DictLoader({"p": "[{{ v }}]"}))
    src = rec["src"].replace("@DIGITS@", DIGITS)
    shown = rec["src"]
    t0 = time.process_time()
    try:
        env.from_string(src).render(**SRC_DATA)
    except LiquidError as e:
        p = replay.error_probe(e)
        if p:
            return [(f"error-probe:{p}:{rec['focus']}", {"src": shown})]
    except Exception as e:  # noqa: BLE001
        return [(f"source-raised-{type(e).__name__}@{replay.raise_site(e)}", {"src": shown, "error": str(e)[:160]})]
    if time.process_time() - t0 > SLOW:
        return [(f"slow-render:{rec['focus']}", {"src": shown, "seconds": round(time.process_time() - t0, 1)})]
    return []


def _judge_src(rec, opts):
    return judge_src(rec, _MOPTS)


_MOPTS: dict = {}


def signature(b) -> str:
    tr = b["trace"]
    return b["clause"]


def check(tier: str) -> int:
    import shutil

    from . import tracecheck as tc
    from .common import SCRATCH
    chk = Check("C02", tier)
    chk.assumptions += ["block nesting bounded (Python's own recursion limit is not the subject)",
                        "time bound: every case finished (no hang) - wall time is reported, not asserted",
                        "TLC, Json/IOUtils modules, CPython"]
    lines = c17.sources(chk, tier)
    out = SCRATCH / f"C02-traces-{os.getpid()}"
    shutil.rmtree(out, ignore_errors=True)
    shards = tc.record_sources(lines, out)
    try:
        bad = tc.validate(chk, shards, "C02")
    finally:
        shutil.rmtree(out, ignore_errors=True)
    for b in bad:
        if mine(b["clause"]):
            chk.violation(signature(b), b)
    for l in lines[:: max(1, len(lines) // 3)][:3]:
        chk.cov["samples"].append(l)
    focuses = [("MC_Confused", "confused", {}, 1, 1), ("MC_Flow", "flow", {}, 1, 1),
               ("MC_Loops", "loops-single", {"Variant": '"single"'}, 1, 1),
               ("MC_Scopes", "scopes", {}, 1, 2), ("MC_Sites", "sites", {}, 2, 3), ("MC_Exprs", "exprs", {}, 1, 1)]
    for module, name, consts, q, t in focuses:
        r = gen.run_focus(chk, module, name, max_top=t if tier == "thorough" else q, extra_constants=consts,
                          export="ExportInputs", invariants=())
        if r is None:
            continue
        try:
            gen.replay_file(chk, r.workdir / "out.ndjson", "harness.c02", "judge", {"_hang_s": HANG})
        finally:
            r.cleanup()
    for wname, alpha, pre, post in SRC_WRAPPERS:
        n = {"html": 4, "expr": 3, "expr-big": 4}.get(alpha, 3) + (1 if tier == "thorough" and alpha != "expr" else 0)
        r = tc.enumerate_sources(chk, f"src-{wname}", alpha, n, pre, post)
        if r is None:
            continue
        try:
            gen.replay_file(chk, r.workdir / "out.ndjson", "harness.c02", "_judge_src", {"_hang_s": HANG})
        finally:
            r.cleanup()
    from . import tlc
    for variant in ("tags", "filters"):
        r = tlc.run("LiquidMsg", tlc.cfg_text(constants={"MaxTop": "1", "Focus": f'"confused-msg-{variant}"', "Variant": f'"{variant}"'},
                                              invariants=["Export"]), tag=f"confused-msg-{variant}", timeout=3000)
        try:
            if r.error:
                chk.machinery_error = r.error
                continue
            chk.tlc(r, f"message templates with type-confused data ({variant})")
            gen.replay_file(chk, r.workdir / "out.ndjson", "harness.c02", "_judge_msg")
        finally:
            r.cleanup()
    return chk.finish()


def replay_file(path: str) -> int:
    import json
    d = json.load(open(path))
    rec = d["record"]
    if "trace" in rec:
        return c17.replay_file(path)
    r = rec["record"]
    got, _ = replay.render_record(r)
    print(r["templates"], r["data"])
    print("got:", got)
    return 1 if (got.get("nonliquid") or got.get("probe")) else 0
