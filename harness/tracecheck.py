"""Source enumeration (TLC) -> recording (library) -> trace validation (TLC) for C17 / C02."""
from __future__ import annotations

import json
import os
import random
from concurrent.futures import ProcessPoolExecutor, ThreadPoolExecutor
from pathlib import Path

from . import tlc
from .common import CACHE, REPO, Check, seed, workers

ALPHABETS = {"markup": "Markup", "expr": "Expr", "markup-small": "MarkupSmall", "expr-small": "ExprSmall", "markup-breaks": "MarkupBreaks", "expr-rt": "ExprRT", "html": "Html", "expr-big": "ExprBig"}


def enumerate_sources(chk: Check, focus: str, alphabet: str, maxlen: int, prefix: str = "", suffix: str = "",
                      simulate: str | None = None):
    """All strings of <= maxlen symbols (TLC); returns the TlcRun (caller cleans up) or None."""
    def q(s):
        return '"' + s.replace("\\", "\\\\").replace('"', '\\"').replace("\n", "\\n") + '"'
    consts = {"Alphabet": f"<- {ALPHABETS[alphabet]}", "MaxLen": str(maxlen), "Prefix": q(prefix),
              "Suffix": q(suffix), "Focus": q(focus)}
    cfg = tlc.cfg_text(constants=consts, invariants=["Export"])
    from .gen import CONCRETE
    r = tlc.run("MC_Strings", cfg, tag=f"strings-{focus}", simulate=simulate, depth=maxlen + 1 if simulate else None,
                seed=seed() if simulate else None, timeout=3000, extra_files={"concrete.json": CONCRETE})
    if r.error:
        chk.machinery_error = r.error
        r.cleanup()
        return None
    chk.tlc(r, f"source enumeration {focus}: alphabet {alphabet}, <= {maxlen} symbols, wrapper {prefix!r}..{suffix!r}")
    return r


def _record_chunk(args):
    lines, base, data = args
    import liquid2

    from . import tokens
    env = liquid2.Environment()
    out = []
    for i, line in enumerate(lines):
        d = json.loads(line)
        out.append(tokens.dumps(tokens.record(d["src"], f"{d.get('focus', 's')}-{base + i}", env, data)))
    return out


def record_sources(lines: list[str], outdir: Path, shard: int = 15000, data: dict | None = None) -> list[Path]:
    """Tokenize/parse/render every source (parallel); write trace shards."""
    outdir.mkdir(parents=True, exist_ok=True)
    n = workers()
    step = max(1, min(2000, len(lines) // (n * 4) + 1))
    jobs = [(lines[i:i + step], i, data or {"x": {"y": [1, 2]}, "t": "T"}) for i in range(0, len(lines), step)]
    traces: list[str] = []
    with ProcessPoolExecutor(n) as ex:
        for part in ex.map(_record_chunk, jobs):
            traces.extend(part)
    paths = []
    for k in range(0, len(traces), shard):
        p = outdir / f"traces-{k // shard}.ndjson"
        p.write_text("\n".join(traces[k:k + shard]) + "\n")
        paths.append(p)
    return paths


def validate(chk: Check, shards: list[Path], what: str) -> list[dict]:
    """TLC judges every recorded trace; returns the failing verdicts (with the trace)."""
    def one(p: Path):
        cfg = tlc.cfg_text(invariants=["Verdict"])
        return p, tlc.run("Trace_Tokens", cfg, tag=f"tracetok-{p.stem}", workers=4, heap="3g",
                          env={"TRACE_FILE": str(p)}, timeout=3000)
    bad = []
    with ThreadPoolExecutor(4) as ex:
        for p, r in ex.map(one, shards):
            try:
                if r.error or r.invariant_violated:
                    chk.machinery_error = r.error or f"Trace_Tokens evaluation failed: {r.trace[:20]}"
                    continue
                chk.tlc(r, f"trace validation {what} ({p.name})")
                verdicts = {v["id"]: v for v in r.out_lines()}
                n = 0
                with p.open() as fd:
                    for line in fd:
                        tr = json.loads(line)
                        n += 1
                        v = verdicts.get(tr["id"])
                        if v is None:
                            chk.machinery_error = f"no verdict for trace {tr['id']}"
                        elif not v["ok"]:
                            bad.append({"clause": v["clause"], "trace": tr})
                chk.validated(n)
                chk.add_distinct(n)
                chk.cov["evaluations"] += n
            finally:
                r.cleanup()
    return bad


def corpus_sources() -> list[str]:
    """Templates of the repository's golden suite (valid and invalid), in the model alphabet."""
    from . import tokens
    p = REPO / "tests" / "liquid2-compliance-test-suite" / "cts.json"
    out = []
    for t in json.loads(p.read_text())["tests"]:
        s = tokens.deconc(t["template"])
        if s is not None and len(s) <= 400:
            out.append(s)
            for part in (t.get("templates") or {}).values():
                s2 = tokens.deconc(part)
                if s2 is not None and len(s2) <= 400:
                    out.append(s2)
    return sorted(set(out))


def mutants(corpus: list[str], per: int, rng: random.Random) -> list[str]:
    """Every prefix (sampled) and single-edit mutants (delete / duplicate / swap a character)."""
    out = set()
    for s in corpus:
        n = len(s)
        if n == 0:
            continue
        cuts = range(1, n) if n <= per else sorted(rng.sample(range(1, n), per))
        for c in cuts:
            out.add(s[:c])
        for _ in range(per):
            i = rng.randrange(n)
            kind = rng.randrange(3)
            if kind == 0:
                out.add(s[:i] + s[i + 1:])
            elif kind == 1:
                out.add(s[:i] + s[i] + s[i:])
            elif i + 1 < n:
                out.add(s[:i] + s[i + 1] + s[i] + s[i + 2:])
    return sorted(out)


def as_lines(srcs: list[str], focus: str) -> list[str]:
    return [json.dumps({"focus": focus, "src": s}) for s in srcs]
