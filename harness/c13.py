"""C13 - file-system and package loaders never read outside their roots.

TLC enumerates every template name of up to MaxSeg segments over the path alphabet (plain
names, '.', '..', empty segments, directory names, absolute names) for one and two search
paths, with and without a default extension, checks Confined on LiquidPaths.tla (the OS walk
of what the loader accepts stays below a search path) and exports, per name, the file that
must be served or not-found; the harness builds the same tree on disk and asks every loader
kind, sync and async, from Python and through include / render / extends.
"""
from __future__ import annotations

import asyncio
import json
import os
import shutil
import sys
from concurrent.futures import ProcessPoolExecutor
from pathlib import Path

from . import tlc
from .common import SCRATCH, Check, chunks, workers

FILES = {("r1", "a.txt"): "r1a", ("r1", "b"): "r1b", ("r1", "sub", "c.txt"): "r1c", ("r2", "a.txt"): "r2a",
         ("r2", "d.txt"): "r2d", ("secret.txt",): "SECRET", ("r1x", "a.txt"): "r1x-a", ("r1", "sub.txt"): "r1subtxt"}
SEGS = '{"a.txt", "a", "b", "sub", "c.txt", "d.txt", "secret.txt", "..", ".", "", "r1", "r2", "r1x", "sub.txt", "@DOTS1@", "@DOTS2@", "@SLASH@secret.txt", "@LONG@", "@NUL@a.txt", "@BSUP@secret.txt"}'
SEGS_FEW = '{"a.txt", "sub", "secret.txt", "..", ".", "", "r1", "r1x", "@DOTS1@", "@SLASH@secret.txt"}'
# look-alike characters that compatibility normalisation folds into path syntax; to the
# model they are ordinary (non-existing) file names
LOOKALIKE = {"@DOTS1@": "\u2024\u2024", "@DOTS2@": "\uff0e\uff0e", "@SLASH@": "\uff0f",
             # names the file system itself refuses: longer than NAME_MAX, with a NUL byte
             "@LONG@": "n" * 300, "@NUL@": "\x00",
             # separators of another operating system: on POSIX a backslash is a character of the name
             "@BSUP@": "..\\"}


def build_tree(base: Path) -> None:
    for parts, cid in FILES.items():
        p = base.joinpath(*parts)
        p.parent.mkdir(parents=True, exist_ok=True)
        p.write_text(f"content:{cid}")
    # the same tree as an importable package (PackageLoader)
    pkg = base / "pkgroot" / "vpkg"
    pkg.mkdir(parents=True, exist_ok=True)
    (pkg / "__init__.py").write_text("")
    for root in ("r1", "r2"):
        shutil.copytree(base / root, pkg / root, dirs_exist_ok=True)
    (pkg / "secret.txt").write_text("content:SECRET")
    shutil.copytree(base / "r1x", pkg / "r1x", dirs_exist_ok=True)


def make_loaders(base: Path, roots: list[list[str]], ext: str):
    from liquid2 import CachingFileSystemLoader, ChoiceLoader, FileSystemLoader, PackageLoader
    paths = [base.joinpath(*r) for r in roots]
    e = ext or None
    out = {
        # a search path relative to the working directory (the probe changes into the first root for it)
        "rel": FileSystemLoader(Path("."), ext=e),
        "fs": FileSystemLoader(paths if len(paths) > 1 else paths[0], ext=e),
        "cfs": CachingFileSystemLoader(paths, ext=e),
        "choice": ChoiceLoader([FileSystemLoader(p, ext=e) for p in paths]),
    }
    if ext:
        out["pkg"] = PackageLoader("vpkg", package_path=["/".join(r) for r in roots], ext=ext)
    return out


def outcome(fn):
    from liquid2.exceptions import LiquidError, TemplateNotFoundError
    try:
        return {"kind": "ok", "text": fn()}
    except TemplateNotFoundError:
        return {"kind": "notfound"}
    except LiquidError as e:
        return {"kind": "liquid:" + type(e).__name__, "msg": str(e)[:120]}
    except BaseException as e:  # noqa: BLE001
        return {"kind": "exc:" + type(e).__name__, "msg": str(e)[:120]}


def probe(rec: dict, base: Path, loaders_cache: dict) -> list[tuple[str, dict]]:
    from liquid2 import ChoiceLoader, DictLoader, Environment
    name = rec["name"].replace("@ROOT@", str(base))
    for k, v in LOOKALIKE.items():
        name = name.replace(k, v)
    key = (json.dumps(rec["roots"]), rec["ext"])
    if key not in loaders_cache:
        loaders_cache[key] = make_loaders(base, rec["roots"], rec["ext"])
    fails = []
    want = {"kind": "ok", "text": f"content:{rec['content']}"} if rec["found"] else {"kind": "notfound"}
    quotable = "'" not in name and "\\" not in name and "\n" not in name and all(ord(ch) >= 8 for ch in name)   # (a literal cannot hold control characters below U+0008)
    os.environ["HOME"] = str(base)              # "~" would be the directory that holds the outside file
    home_cwd = os.getcwd()
    for lname, loader in loaders_cache[key].items():
        if lname == "rel":
            if len(rec["roots"]) != 1:
                continue
            os.chdir(base.joinpath(*rec["roots"][0]))
        else:
            os.chdir(home_cwd)
        env = Environment(loader=loader)
        tagenv = Environment(loader=ChoiceLoader([DictLoader({}), loader]))
        accesses = {
            "get_template": lambda env=env: env.get_template(name).render(),
            "get_template_async": lambda env=env: asyncio.run(_aget(env, name)),
            "include": lambda e=tagenv: e.from_string("{% include n %}").render(n=name),
            "include_async": lambda e=tagenv: asyncio.run(e.from_string("{% include n %}").render_async(n=name)),
        }
        if quotable:
            accesses["render"] = lambda e=tagenv: e.from_string("{% render '" + name + "' %}").render()
            accesses["extends"] = lambda e=tagenv: e.from_string("{% extends '" + name + "' %}").render()
        for aname, fn in accesses.items():
            got = outcome(fn)
            if got != want:
                clause = "served-outside-or-wrong-file" if got["kind"] == "ok" else ("missed" if want["kind"] == "ok" else "not-a-TemplateNotFoundError")
                shape = ("absolute" if rec["name"].startswith(("/", "@ROOT@")) else "relative") + \
                        (",parent" if ".." in rec["name"].split("/") else "") + \
                        (",empty" if rec["name"] in ("", "/", "@ROOT@/", "/@ROOT@/", "//@ROOT@/") else "")
                fails.append((f"{clause}:{lname}:{aname}:{shape}:{got['kind']}", {"name": name, "want": want, "got": got, "rec": rec}))
    os.chdir(home_cwd)
    return fails


async def _aget(env, name):
    t = await env.get_template_async(name)
    return await t.render_async()


def _chunk(args):
    recs, base = args
    base = Path(base)
    sys.path.insert(0, str(base / "pkgroot"))
    cache: dict = {}
    out = []
    for rec in recs:
        out.extend(probe(rec, base, cache))
    return len(recs), out[:300]


def check(tier: str) -> int:
    chk = Check("C13", tier)
    chk.assumptions += ["no symbolic links in the tree", "POSIX path semantics", "TLC, Json/IOUtils modules, CPython"]
    base = SCRATCH / f"c13-{os.getpid()}"
    shutil.rmtree(base, ignore_errors=True)
    base.mkdir(parents=True)
    build_tree(base)
    maxseg = 3 if tier == "thorough" else 2
    try:
        plans = [("<- Roots1", '""', SEGS, maxseg), ("<- Roots2", '".txt"', SEGS, maxseg), ("<- Roots1", '".txt"', SEGS, maxseg),
                 ("<- Roots2", '""', SEGS, maxseg), ("<- Roots1", '""', SEGS_FEW, maxseg + 1), ("<- Roots1", '".txt"', SEGS_FEW, maxseg + 1)]
        for roots, ext, segs, depth in plans:
            consts = {"Segs": segs, "MaxSeg": str(depth), "Roots": roots, "Ext": ext, "Dev": "{}", "Focus": '"paths"'}
            r = tlc.run("LiquidPaths", tlc.cfg_text(constants=consts, invariants=["Confined", "Export"]), tag="paths", timeout=3000)
            try:
                if r.error:
                    chk.machinery_error = r.error
                    continue
                if r.invariant_violated:
                    chk.spec_violation(r, f"paths roots={roots} ext={ext}")
                    continue
                chk.tlc(r, f"all names <= {depth} segments over {len(segs.split(','))} segment kinds, roots {roots}, ext {ext}")
                recs = list(r.out_lines())
            finally:
                r.cleanup()
            jobs = [(c, str(base)) for c in chunks(recs, workers() * 2)]
            with ProcessPoolExecutor(workers()) as ex:
                for n, fails in ex.map(_chunk, jobs):
                    chk.validated(n)
                    chk.add_distinct(n)
                    chk.cov["evaluations"] += n
                    for sig, det in fails:
                        chk.violation(sig, det)
            for rec in recs[:: max(1, len(recs) // 3)][:2]:
                chk.cov["samples"].append(rec)
        # the model reproduces the defect when the guard is dropped (vacuity check of Confined)
        consts = {"Segs": SEGS, "MaxSeg": "2", "Roots": "<- Roots1", "Ext": '""', "Dev": '{"NoParentCheck"}', "Focus": '"paths"'}
        r = tlc.run("LiquidPaths", tlc.cfg_text(constants=consts, invariants=["Confined"]), tag="paths-dev", timeout=600)
        try:
            if not r.invariant_violated:
                chk.machinery_error = "vacuity: Confined holds even without the parent-directory check"
        finally:
            r.cleanup()
    finally:
        shutil.rmtree(base, ignore_errors=True)
    return chk.finish()


def replay_file(path: str) -> int:
    d = json.load(open(path))
    det = d["record"]
    base = SCRATCH / f"c13-replay-{os.getpid()}"
    shutil.rmtree(base, ignore_errors=True)
    base.mkdir(parents=True)
    build_tree(base)
    sys.path.insert(0, str(base / "pkgroot"))
    try:
        fails = probe(det["rec"], base, {})
        for sig, f in fails:
            print(sig, f["want"], f["got"])
        if fails:
            print(f"VIOLATION property=C13 replay={path}")
            return 1
        print("conforms")
        return 0
    finally:
        shutil.rmtree(base, ignore_errors=True)
