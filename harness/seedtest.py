#!/venv/bin/python
"""Confirm a seeded property-breaking change and run the property's check against it.

usage: seedtest.py <seed_dir> [--tier quick] [--keep-name NAME]
  <seed_dir> holds patch.diff, demo.py, meta.json (written by an independent sub-agent).
Steps: (1) scratch worktree of /repo HEAD outside /repo and /verif: apply patch, run the test
suite (must pass), run demo (must fail), revert, run demo (must pass); remove the worktree.
(2) apply the patch to /repo, run the check, undo (git checkout -- .). (3) record everything
in /verif/seeded/<name>/meta.json.
"""
from __future__ import annotations

import json
import os
import shutil
import subprocess
import sys
import time
from pathlib import Path

VERIF = Path(__file__).resolve().parent.parent
REPO = "/repo"


def sh(cmd, cwd=None, env=None, timeout=3600):
    p = subprocess.run(cmd, shell=True, cwd=cwd, env=env, capture_output=True, text=True, timeout=timeout)
    return p.returncode, (p.stdout + p.stderr)


def main() -> int:
    seed = Path(sys.argv[1]).resolve()
    tier = "quick"
    if "--tier" in sys.argv:
        tier = sys.argv[sys.argv.index("--tier") + 1]
    meta = json.loads((seed / "meta.json").read_text())
    pid = meta["property"]
    name = seed.name
    dest = VERIF / "seeded" / name
    dest.mkdir(parents=True, exist_ok=True)
    for f in ("patch.diff", "demo.py"):
        if (seed / f).resolve() != (dest / f).resolve():
            shutil.copy(seed / f, dest / f)
    patch = dest / "patch.diff"
    result = {"property": pid, "what": meta.get("what"), "needs": meta.get("needs"),
              "agent_ran": meta.get("ran"), "confirmed": {}}
    # (1) independent confirmation in a scratch worktree
    wt = f"/tmp/seedverify_{os.getpid()}"
    sh(f"git -C {REPO} worktree add --detach {wt} HEAD -q")
    try:
        env = dict(os.environ, PYTHONPATH=wt)
        rc, out = sh(f"git apply {patch}", cwd=wt)
        result["confirmed"]["applies"] = rc == 0
        if rc != 0:
            result["confirmed"]["apply_error"] = out[-500:]
        else:
            rc, out = sh("/venv/bin/python -m pytest -q -p no:cacheprovider -x 2>&1 | tail -3", cwd=wt)
            result["confirmed"]["tests_with_change"] = out.strip().splitlines()[-1] if out.strip() else ""
            result["confirmed"]["tests_pass"] = " passed" in out and "failed" not in out and "error" not in out.lower()
            demo = dest / "demo.py"
            # as the authors ran it: <checkout>/_seed/<name>/demo.py, from the checkout's root
            (Path(wt) / "_seed" / name).mkdir(parents=True, exist_ok=True)
            shutil.copy(demo, Path(wt) / "_seed" / name / "demo.py")
            rc1, out1 = sh(f"/venv/bin/python _seed/{name}/demo.py", cwd=wt, env=env)
            result["confirmed"]["demo_with_change_rc"] = rc1
            result["confirmed"]["demo_with_change_tail"] = out1.strip()[-300:]
            sh("git checkout -- liquid2", cwd=wt)
            rc0, out0 = sh(f"/venv/bin/python _seed/{name}/demo.py", cwd=wt, env=env)
            result["confirmed"]["demo_without_change_rc"] = rc0
    finally:
        sh(f"git -C {REPO} worktree remove --force {wt}")
    ok = (result["confirmed"].get("applies") and result["confirmed"].get("tests_pass")
          and result["confirmed"].get("demo_with_change_rc") != 0
          and result["confirmed"].get("demo_without_change_rc") == 0)
    result["confirmed"]["all"] = bool(ok)
    # (2) run the property's check against it: a second scratch worktree with the patch applied is
    #     what the check imports (VERIF_REPO); /repo itself is not touched, so seeds can be run in
    #     parallel.  (`--in-repo` applies the patch to /repo instead and undoes it afterwards.)
    in_repo = "--in-repo" in sys.argv
    t0 = time.time()
    cmd = f"/venv/bin/python harness/check.py {pid} --tier {tier}"
    if in_repo:
        rc, out = sh(f"git -C {REPO} apply {patch}")
        if rc == 0:
            try:
                crc, cout = sh(cmd, cwd=str(VERIF), timeout=7200)
            finally:
                sh(f"git -C {REPO} checkout -- .")
        else:
            crc, cout = -1, "patch does not apply to /repo: " + out[-300:]
    else:
        wt2 = f"/tmp/seedrun_{os.getpid()}"
        sh(f"git -C {REPO} worktree add --detach {wt2} HEAD -q")
        try:
            rc, out = sh(f"git apply {patch}", cwd=wt2)
            if rc == 0:
                scratch_ev = VERIF / ".cache" / "seedruns" / name
                scratch_ev.mkdir(parents=True, exist_ok=True)
                env2 = dict(os.environ, VERIF_REPO=wt2, VERIF_EVIDENCE=str(scratch_ev), VERIF_REPLAYS=str(scratch_ev / "replays"))
                crc, cout = sh(cmd, cwd=str(VERIF), env=env2, timeout=7200)
            else:
                crc, cout = -1, "patch does not apply: " + out[-300:]
        finally:
            sh(f"git -C {REPO} worktree remove --force {wt2}")
    result["check"] = {"cmd": cmd, "how": "git apply in /repo" if in_repo else "patched scratch worktree via VERIF_REPO",
                       "exit": crc, "wall_s": round(time.time() - t0, 1),
                       "violation_lines": [l for l in cout.splitlines() if l.startswith("VIOLATION") or l.strip().startswith("signature")][:12],
                       "detected": crc == 1}
    (dest / "meta.json").write_text(json.dumps(result, indent=1))
    print(json.dumps(result, indent=1))
    return 0


if __name__ == "__main__":
    sys.exit(main())
