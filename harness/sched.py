"""A deterministic scheduler for concurrent render coroutines under a real asyncio loop.

The harness's doubles (pausing loader, async drops) suspend with `await pause()`.  Outside
a schedule that is a bare awaitable that yields once (coroutines are then stepped by hand
with coro.send).  Inside `run_schedule` every task runs as an asyncio Task and `pause()`
parks it on a gate until the driver - following the TLC-generated schedule - releases it,
so the library may use any asyncio primitive (futures, locks, ensure_future) and the
interleaving at the doubles' await points is still exactly the schedule.
"""
from __future__ import annotations

import asyncio


class _Yield:
    def __await__(self):
        yield self


class Gate:
    """Parks every task that reaches one of the doubles' await points until its slot is released.
    Tasks the library spawns itself (ensure_future, gather ...) belong to the slot that was
    running when they first parked."""

    def __init__(self):
        self.parked: dict[int, list] = {}        # slot -> futures waiting for a release
        self.counts: dict[int, int] = {}
        self.owner: dict[object, int] = {}       # asyncio.Task -> slot
        self.current = 0
        self.active = False

    async def pause(self):
        if not self.active:
            await asyncio.sleep(0)
            return
        task = asyncio.current_task()
        slot = self.owner.setdefault(task, self.current)
        fut = asyncio.get_running_loop().create_future()
        self.parked.setdefault(slot, []).append(fut)
        self.counts[slot] = self.counts.get(slot, 0) + 1
        await fut


GATE = Gate()


def pause():
    """Awaitable used by the doubles at their await points."""
    try:
        asyncio.get_running_loop()
    except RuntimeError:
        return _Yield()
    return GATE.pause()


async def _settle(slot: int, task: asyncio.Task, spins: int = 50) -> None:
    """Let the loop run until the slot is parked again, finished, or blocked on something else."""
    for _ in range(spins):
        await asyncio.sleep(0)
        if task.done() or GATE.parked.get(slot):
            return


async def _drive(factories: dict[int, object], schedule: list[int]) -> dict[int, object]:
    GATE.parked.clear()
    GATE.counts.clear()
    GATE.owner.clear()
    GATE.active = True
    tasks: dict[int, asyncio.Task] = {}
    results: dict[int, object] = {}

    async def wrapper(slot):
        await GATE.pause()                      # nothing runs before its first turn
        return await factories[slot]()

    try:
        for slot in factories:
            GATE.current = slot
            tasks[slot] = asyncio.get_running_loop().create_task(wrapper(slot), name=f"sched-{slot}")
            GATE.owner[tasks[slot]] = slot
            await _settle(slot, tasks[slot])
        order = list(schedule) + [s for _ in range(200) for s in factories]
        for slot in order:
            t = tasks.get(slot)
            if t is None or t.done():
                if all(x.done() for x in tasks.values()):
                    break
                continue
            GATE.current = slot
            for fut in GATE.parked.pop(slot, []):
                if not fut.done():
                    fut.set_result(None)
            await _settle(slot, t)
        for slot, t in tasks.items():
            if not t.done():
                t.cancel()
                results[slot] = "did-not-finish"
            else:
                try:
                    results[slot] = t.result()
                except BaseException as e:  # noqa: BLE001
                    results[slot] = f"raised {type(e).__name__}: {e}"
    finally:
        GATE.active = False
        GATE.parked.clear()
        GATE.owner.clear()
    return results


def run_schedule(factories: dict[int, object], schedule: list[int]) -> dict[int, object]:
    """factories: slot -> zero-argument callable returning the coroutine to run as that task."""
    return asyncio.run(_drive(factories, schedule))


def run_solo(factory) -> tuple[object, int]:
    """Run one coroutine alone; returns (result, number of suspensions at the doubles)."""
    res = run_schedule({1: factory}, [])
    return res[1], max(0, GATE.counts.get(1, 1) - 1)


def drive(factory, limit: int = 100000):
    """Run a coroutine to completion: stepped by hand (fast), or - if the code under test
    needs a running event loop - under asyncio."""
    coro = factory()
    n = 0
    try:
        while True:
            coro.send(None)
            n += 1
            if n > limit:
                raise RuntimeError("coroutine does not finish")
    except StopIteration as stop:
        return stop.value
    except RuntimeError as e:
        if "no running event loop" not in str(e):
            raise
        coro.close()
        return asyncio.run(factory())
