"""A deterministic scheduler for concurrent render coroutines under a real asyncio loop.

The harness's doubles (pausing loader, async drops) suspend with `await pause()`.  Outside
a schedule that is a bare awaitable that yields once (coroutines are then stepped by hand
with coro.send).  Inside `run_schedule` every task runs as an asyncio Task and `pause()`
parks it on a gate until the driver - following the TLC-generated schedule - releases it,
so the library may use any asyncio primitive (futures, locks, ensure_future) and the
interleaving at the doubles' await points is still exactly the schedule.
"""
from __future__ import annotations

import asyncio


class _Yield:
    def __await__(self):
        yield self


class Gate:
    def __init__(self):
        self.parked: dict[str, asyncio.Future] = {}
        self.counts: dict[str, int] = {}
        self.active = False

    async def pause(self):
        task = asyncio.current_task()
        name = task.get_name() if task is not None else "?"
        if not self.active or not name.startswith("sched-"):
            await asyncio.sleep(0)
            return
        fut = asyncio.get_running_loop().create_future()
        self.parked[name] = fut
        self.counts[name] = self.counts.get(name, 0) + 1
        await fut


GATE = Gate()


def pause():
    """Awaitable used by the doubles at their await points."""
    try:
        asyncio.get_running_loop()
    except RuntimeError:
        return _Yield()
    return GATE.pause()


async def _settle(name: str, task: asyncio.Task, spins: int = 50) -> None:
    """Let the loop run until the task is parked again, finished, or blocked on something else."""
    for _ in range(spins):
        await asyncio.sleep(0)
        if task.done() or name in GATE.parked:
            return


async def _drive(factories: dict[int, object], schedule: list[int]) -> dict[int, object]:
    GATE.parked.clear()
    GATE.counts.clear()
    GATE.active = True
    tasks: dict[int, asyncio.Task] = {}
    results: dict[int, object] = {}

    async def wrapper(slot):
        await GATE.pause()                      # nothing runs before its first turn
        return await factories[slot]()

    try:
        for slot in factories:
            tasks[slot] = asyncio.get_running_loop().create_task(wrapper(slot), name=f"sched-{slot}")
        for slot, t in tasks.items():
            await _settle(f"sched-{slot}", t)
        order = list(schedule) + [s for _ in range(200) for s in factories]
        for slot in order:
            t = tasks.get(slot)
            if t is None or t.done():
                if all(x.done() for x in tasks.values()):
                    break
                continue
            name = f"sched-{slot}"
            fut = GATE.parked.pop(name, None)
            if fut is not None and not fut.done():
                fut.set_result(None)
            await _settle(name, t)
        for slot, t in tasks.items():
            if not t.done():
                t.cancel()
                results[slot] = "did-not-finish"
            else:
                try:
                    results[slot] = t.result()
                except BaseException as e:  # noqa: BLE001
                    results[slot] = f"raised {type(e).__name__}: {e}"
    finally:
        GATE.active = False
        GATE.parked.clear()
    return results


def run_schedule(factories: dict[int, object], schedule: list[int]) -> dict[int, object]:
    """factories: slot -> zero-argument callable returning the coroutine to run as that task."""
    return asyncio.run(_drive(factories, schedule))


def run_solo(factory) -> tuple[object, int]:
    """Run one coroutine alone; returns (result, number of suspensions at the doubles)."""
    res = run_schedule({1: factory}, [])
    return res[1], max(0, GATE.counts.get("sched-1", 1) - 1)


def drive(factory, limit: int = 100000):
    """Run a coroutine to completion: stepped by hand (fast), or - if the code under test
    needs a running event loop - under asyncio."""
    coro = factory()
    n = 0
    try:
        while True:
            coro.send(None)
            n += 1
            if n > limit:
                raise RuntimeError("coroutine does not finish")
    except StopIteration as stop:
        return stop.value
    except RuntimeError as e:
        if "no running event loop" not in str(e):
            raise
        coro.close()
        return asyncio.run(factory())
