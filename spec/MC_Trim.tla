-------------------------------- MODULE MC_Trim --------------------------------
(* Focus "trim": whitespace-control markers on every kind of markup, whitespace *)
(* text of every class str.strip() recognises, default trim mode and blank-block *)
(* suppression (C18, C01).  Programs are  text  markup  text  [markup text].    *)
EXTENDS LiquidGen, LiquidAst

CONSTANT Variant   \* "markers" | "blank" | "capture"

MCData == { << <<<<"x", IntV(1)>>, <<"e", Str("")>>>>, <<>>, <<>>, <<>> >> }
MCCfgs == {Cfg(t, s, FALSE, "default") :
             t \in {"+", "-", "~"}, s \in BOOLEAN}

Wcs == {<<"", "">>, <<"-", "-">>, <<"-", "">>, <<"", "-">>, <<"~", "~">>, <<"~", "-">>, <<"+", "-">>, <<"-", "+">>, <<"", "~">>}
WcsFew == {<<"", "">>, <<"-", "-">>, <<"~", "">>, <<"", "~">>, <<"+", "-">>}
\* whitespace of every class: space, tab, newline, CR, VT, FF, FS..US, NEL, NBSP, EM SPACE, IDEOGRAPHIC SPACE
Texts == {NText("  a  "), NText(" \n"), NText("\n b \n"), NText("\r\n\tc\r\n"),
          NText(Conc.ws[5] \o Conc.ws[7] \o "d" \o Conc.ws[11] \o Conc.ws[12]),
          NText(Conc.ws[13] \o "\n" \o Conc.ws[14]), NText(Conc.ws[6] \o " " \o Conc.ws[10])}
TextsFew == {NText("  a  "), NText(" \n"), NText("\n \r\n")}
Inner == {<<NText(" i ")>>, <<NText(" \n ")>>, <<>>, <<NText("\n"), NOut(P(V("x"))), NText(" \n")>>, <<NText("\r\n j\r")>>}

W(n, wc) == [n EXCEPT !.wc = wc]
WE(n, wc, ewc) == [n EXCEPT !.wc = wc, !.ewc = ewc]

Simple == {W(NOut(P(V("x"))), wc) : wc \in Wcs} \cup {W(NOut(P(V("e"))), wc) : wc \in WcsFew}
          \cup {W(Assign("y", P(I(1))), wc) : wc \in Wcs}
          \cup {W(Comment(kd, " c "), wc) : kd \in {"hash", "inline", "block"}, wc \in Wcs}
          \cup {[Raw(t) EXCEPT !.wc = <<a[1], a[2], b[1], b[2]>>] : t \in {" r ", "\n"}, a \in WcsFew, b \in WcsFew}
          \cup {W(Echo(P(V("x"))), wc) : wc \in WcsFew}
          \cup {W(Incr("c"), wc) : wc \in WcsFew}
Blocks == {WE(If(TrueE, b, <<>>, NoElse), wc, ewc) : b \in Inner, wc \in Wcs, ewc \in WcsFew}
          \cup {WE(If(FalseE, <<NText(" f ")>>, <<>>, [Else(b) EXCEPT !.wc = wc]), <<"", "-">>, ewc) : b \in Inner, wc \in Wcs, ewc \in WcsFew}
          \cup {WE(If(TrueE, <<NText(" t \n")>>, <<>>, [Else(<<>>) EXCEPT !.wc = wc]), <<"", "">>, ewc) : wc \in Wcs, ewc \in WcsFew}
          \cup {WE(For("i", RangeE(I(1), I(2)), "(1..2)", NoOpt, NoOpt, FALSE, <<NText(" l \n")>>, [Else(<<>>) EXCEPT !.wc = wc]), <<"", "">>, ewc) : wc \in WcsFew, ewc \in WcsFew}
          \cup {WE(Case(V("x"), <<When(<<I(1)>>, <<NText(" w \n")>>)>>, [Else(<<>>) EXCEPT !.wc = wc]), <<"", "">>, ewc) : wc \in WcsFew, ewc \in WcsFew}
          \cup {WE(Unless(FalseE, <<NText(" u \n")>>, <<>>, [Else(<<>>) EXCEPT !.wc = wc]), <<"", "">>, ewc) : wc \in WcsFew, ewc \in WcsFew}
          \cup {WE(If(FalseE, <<>>, <<[Elif(TrueE, b) EXCEPT !.wc = wc]>>, NoElse), <<"", "">>, ewc) : b \in Inner, wc \in Wcs, ewc \in WcsFew}
          \cup {WE(For("i", RangeE(I(1), I(2)), "(1..2)", NoOpt, NoOpt, FALSE, b, NoElse), wc, ewc) : b \in Inner, wc \in WcsFew, ewc \in WcsFew}
          \cup {WE(Capture("y", b), wc, ewc) : b \in Inner, wc \in WcsFew, ewc \in WcsFew}
          \cup {WE(Case(V("x"), <<[When(<<I(1)>>, b) EXCEPT !.wc = wc]>>, NoElse), <<"", "">>, ewc) : b \in Inner, wc \in Wcs, ewc \in WcsFew}
          \cup {WE(With(<<WArg("y", I(1))>>, b), wc, ewc) : b \in Inner, wc \in WcsFew, ewc \in WcsFew}
          \* a case with no branch at all: its two tags still trim what is next to them, and nothing else
          \cup {WE(Case(V("x"), <<>>, NoElse), wc, ewc) : wc \in Wcs, ewc \in Wcs}
          \cup {WE(Unless(FalseE, b, <<>>, NoElse), wc, ewc) : b \in Inner, wc \in WcsFew, ewc \in WcsFew}

\* blank-block suppression: blocks holding only whitespace, comments, assigns, captures,
\* nested blank blocks - and blocks that are NOT blank (output, raw text, echo, counters)
BlankBodies == {<<NText(" \n ")>>, <<NText(" "), Assign("y", P(I(1))), NText(" ")>>,
                <<NText(" "), Comment("hash", "c"), NText("\n")>>,
                <<NText(" "), Capture("z", <<NText(" q ")>>), NText(" ")>>,
                <<NText(" "), If(TrueE, <<NText(" ")>>, <<>>, NoElse), NText(" ")>>,
                <<NText(" "), NOut(P(V("e"))), NText(" ")>>,
                <<NText(" "), Raw("r"), NText(" ")>>,
                <<NText(" "), Echo(P(V("e"))), NText(" ")>>,
                <<NText(" "), Incr("c"), NText(" ")>>,
                <<NText(" "), If(TrueE, <<NText(" v ")>>, <<>>, NoElse), NText(" ")>>,
                <<NText(" "), Cycle("", <<S("")>>, "|''"), NText(" ")>>,
                <<NText(" "), For("i", RangeE(I(1), I(2)), "(1..2)", NoOpt, NoOpt, FALSE, <<NText(" ")>>, NoElse), NText(" ")>>,
                <<NText(" "), With(<<WArg("w", I(1))>>, <<NText(" ")>>), NText(" ")>>,
                \* a loop whose body is silent but whose else branch is not (the iterable is empty), and the reverse
                <<NText(" "), For("i", RangeE(I(2), I(1)), "(2..1)", NoOpt, NoOpt, FALSE, <<Assign("y", P(I(2)))>>, Else(<<NText("none")>>)), NText(" ")>>,
                <<NText(" "), For("i", RangeE(I(1), I(2)), "(1..2)", NoOpt, NoOpt, FALSE, <<NText("it")>>, Else(<<NText(" ")>>)), NText(" ")>>,
                <<NText(" "), If(FalseE, <<NText(" ")>>, <<Elif(TrueE, <<NText("elsif")>>)>>, NoElse), NText(" ")>>,
                <<NText(" "), Unless(TrueE, <<NText(" ")>>, <<>>, Else(<<NText("else")>>)), NText(" ")>>,
                <<NText(" "), Case(V("x"), <<When(<<I(1)>>, <<NText(" ")>>)>>, Else(<<NText(" ")>>)), NText(" ")>>}
BlankBlocks == {If(TrueE, b, <<>>, NoElse) : b \in BlankBodies}
               \cup {If(FalseE, <<>>, <<>>, Else(b)) : b \in BlankBodies}
               \cup {Unless(FalseE, b, <<>>, NoElse) : b \in BlankBodies}
               \cup {For("i", RangeE(I(1), I(2)), "(1..2)", NoOpt, NoOpt, FALSE, b, NoElse) : b \in BlankBodies}
               \cup {Case(V("x"), <<When(<<I(1)>>, b)>>, NoElse) : b \in BlankBodies}
               \cup {Case(V("x"), <<When(<<I(2)>>, <<>>)>>, Else(b)) : b \in BlankBodies}
               \cup {With(<<WArg("w", I(1))>>, b) : b \in BlankBodies}
               \cup {Capture("cap", b) : b \in BlankBodies}

\* everything a program binds is printed afterwards, so that what was captured or
\* assigned inside the marked / suppressed construct is observable
Prints == {NOut(P(V("y"))), NOut(P(V("z"))), NOut(P(V("cap")))}
Captures == {WE(Capture("y", b), wc, ewc) : b \in Inner, wc \in WcsFew, ewc \in WcsFew}
            \cup {W(Assign("y", P(S(" s "))), wc) : wc \in WcsFew}
MCPoolAt(i) ==
  CASE Variant = "markers" ->
         (IF i % 2 = 1 THEN (IF i = 1 THEN Texts ELSE TextsFew)
          ELSE (IF i = 2 THEN Simple \cup Blocks ELSE {W(NOut(P(V("y"))), wc) : wc \in WcsFew}))
    [] Variant = "capture" ->
         (IF i % 2 = 1 THEN TextsFew ELSE (IF i = 2 THEN Captures ELSE {W(NOut(P(V("y"))), wc) : wc \in WcsFew}))
    [] Variant = "blank" ->
         (IF i % 2 = 1 THEN {NText("["), NText("]")} ELSE (IF i = 2 THEN BlankBlocks ELSE Prints))
MCPartials == <<>>
=============================================================================
