------------------------------ MODULE MC_Confused ------------------------------
(* Focus "confused": every filter, tag argument and operator applied to values of *)
(* the wrong type, of extreme size or sign (C02: render is total over the error   *)
(* model).  The expected result is not what matters here - the inputs are.        *)
EXTENDS LiquidGen, LiquidAst

Big == Str("123456789012345678901234567890")
Vals == {Nil, Bool(TRUE), IntV(0), IntV(-1), IntV(-5), IntV(1000000), Str(""), Str("abc"), Str("-3"), Str("1e400"),
         Str("inf"), Str("nan"), Str("50%"), Str("%s %d"), Big, Arr(<<>>), Arr(<<IntV(1), Str("a"), Nil>>),
         Arr(<<Arr(<<Arr(<<Arr(<<Arr(<<Arr(<<IntV(1)>>)>>)>>)>>)>>)>>),
         Hash(<< <<"a", IntV(1)>> >>), Arr(<<Hash(<< <<"a", IntV(1)>> >>), Hash(<< <<"b", Str("x")>> >>), IntV(3)>>), Range(1, 3),
         Flt("nan"), Flt("inf"), Flt("-inf"), Flt("1.5"), Flt("-0.0"), Flt("1e308"), BigInt("123456789012345678901234567890"),
         BigInt("-9223372036854775809"), Arr(<<Flt("nan"), IntV(1), Str("a")>>)}
MCData == {<< <<<<"x", vx>>, <<"y", vy>>>>, <<>>, <<>>, <<>> >> : vx \in Vals, vy \in {Nil, IntV(-2), Str("abc"), Str("inf"), Arr(<<IntV(1)>>), Hash(<< <<"a", IntV(1)>> >>), Flt("nan"), Flt("inf"),
                                                                         BigInt("123456789012345678901234567890")}}
MCCfgs == {Cfg("+", TRUE, FALSE, "default"), Cfg("+", TRUE, TRUE, "strict")}
MCPartials == << <<"p", <<NOut(P(V("p")))>>>> >>

X == V("x")
Y == V("y")
Filters0 == {"abs", "ceil", "floor", "round", "size", "first", "last", "reverse", "sort", "sort_natural", "sort_numeric",
             "uniq", "compact", "sum", "upcase", "downcase", "capitalize", "strip", "lstrip", "rstrip", "escape",
             "escape_once", "strip_html", "strip_newlines", "newline_to_br", "url_encode", "url_decode", "json",
             "base64_encode", "base64_decode", "base64_url_safe_encode", "base64_url_safe_decode", "safe", "t", "gettext",
             "date", "default", "join", "map", "where", "find", "has", "currency", "money", "decimal", "datetime", "unit"}
Filters1 == {"plus", "minus", "times", "divided_by", "modulo", "at_least", "at_most", "round", "append", "prepend",
             "remove", "remove_first", "remove_last", "replace", "replace_first", "replace_last", "split", "join",
             "truncate", "truncatewords", "slice", "concat", "map", "where", "reject", "find", "find_index", "has",
             "sort", "sort_natural", "sort_numeric", "sum", "uniq", "compact", "default", "date", "json", "t",
             "ngettext", "pgettext", "npgettext", "gettext", "datetime", "decimal", "unit", "currency"}
MCPool == {NOut(F(X, <<Fl(f, <<>>)>>)) : f \in Filters0}
          \cup {NOut(F(X, <<Fl(f, <<Y>>)>>)) : f \in Filters1}
          \cup {NOut(F(Y, <<Fl(f, <<X>>)>>)) : f \in Filters1}
          \cup {NOut(F(X, <<Fl(f, <<Y, X>>)>>)) : f \in {"slice", "replace", "truncate", "truncatewords", "where", "ngettext", "pgettext", "round"}}
          \cup {NOut(P(RangeE(X, Y))), NOut(P(RangeE(I(1), X))),
                For("i", X, "x", Opt(Y), NoOpt, FALSE, <<NOut(P(V("i")))>>, NoElse),
                For("i", X, "x", NoOpt, Opt(Y), FALSE, <<NOut(P(V("i")))>>, NoElse),
                For("i", RangeE(I(1), I(3)), "(1..3)", Opt(X), Opt(Y), TRUE, <<NOut(P(V("i")))>>, NoElse),
                For("i", RangeE(X, Y), "(x..y)", NoOpt, NoOpt, FALSE, <<NOut(P(V("i")))>>, NoElse),
                Include(X, "none", NilE, "", <<>>), Include(S("p"), "for", X, "", <<>>), RenderT(S("p"), "for", X, "", <<>>),
                RenderT(S("p"), "with", X, "", <<>>), Cycle("", <<X, Y>>, "|x,y"), Case(X, <<When(<<Y, I(1)>>, <<NText("w")>>)>>, NoElse),
                If(Cmp("<", X, Y), <<NText("t")>>, <<>>, NoElse), If(Contains(X, Y), <<NText("t")>>, <<>>, NoElse),
                If(In(X, Y), <<NText("t")>>, <<>>, NoElse), NOut(P([k |-> "var", segs |-> <<[t |-> "k", v |-> "x"], [t |-> "p", p |-> <<[t |-> "k", v |-> "y"]>>]>>])),
                NOut(P(VI("x", -1))), NOut(P(VI("x", 99))), NOut(P(VP("x", "size"))), NOut(P(VP("x", "first"))), NOut(P(VP("x", "last"))),
                Assign("z", F(X, <<Fl("times", <<Y>>)>>)), NOut(P([k |-> "tstr", parts |-> <<S("a"), P(X), S("b"), F(Y, <<Fl("upcase", <<>>)>>)>>, q |-> "\""])),
                With(<<WArg("w", X)>>, <<NOut(P(VP("w", "a")))>>), Call("nomacro", <<X>>, <<>>)}
MCPoolAt(i) == MCPool
=============================================================================
