------------------------------ MODULE MC_Confused ------------------------------
(* Focus "confused": every filter, tag argument and operator applied to values of *)
(* the wrong type, of extreme size or sign (C02: render is total over the error   *)
(* model).  The expected result is not what matters here - the inputs are.        *)
EXTENDS LiquidGen, LiquidAst

Big == Str("123456789012345678901234567890")
Vals == {Nil, Bool(TRUE), IntV(0), IntV(-1), IntV(-5), IntV(1000000), Str(""), Str("abc"), Str("-3"), Str("1e400"),
         Str("inf"), Str("nan"), Str("50%"), Str("%s %d"), Big, Arr(<<>>), Arr(<<IntV(1), Str("a"), Nil>>),
         Arr(<<Arr(<<Arr(<<Arr(<<Arr(<<Arr(<<IntV(1)>>)>>)>>)>>)>>)>>),
         Arr(<<Arr(<<IntV(1), IntV(2)>>), Arr(<<IntV(3)>>), IntV(5)>>),       \* rows first: what a flattening filter must not write into
         Hash(<< <<"a", IntV(1)>> >>), Arr(<<Hash(<< <<"a", IntV(1)>> >>), Hash(<< <<"b", Str("x")>> >>), IntV(3)>>), Range(1, 3),
         Flt("nan"), Flt("inf"), Flt("-inf"), Flt("1.5"), Flt("-0.0"), Flt("1e308"), BigInt("123456789012345678901234567890"),
         BigInt("-9223372036854775809"), Arr(<<Flt("nan"), IntV(1), Str("a")>>),
         \* an integer beyond the 4300 digits CPython converts to text without being asked (the harness writes HUGE as 10^5000),
         \* 2^62 as number and as text (a time stamp the C library refuses), a range bound that outlasts any loop
         BigInt("HUGE"), BigInt("-HUGE"), BigInt("4611686018427387904"), Str("4611686018427387904"), IntV(100000000)}
MCData == {<< <<<<"x", vx>>, <<"y", vy>>>>, <<>>, <<>>, <<>> >> : vx \in Vals, vy \in {Nil, IntV(-2), Str("abc"), Str("inf"), Arr(<<IntV(1)>>), Hash(<< <<"a", IntV(1)>> >>), Flt("nan"), Flt("inf"),
                                                                         BigInt("123456789012345678901234567890")}}
MCCfgs == {Cfg("+", TRUE, FALSE, "default"), Cfg("+", TRUE, TRUE, "strict")}
MCPartials == << <<"p", <<NOut(P(V("p")))>>>> >>

X == V("x")
Y == V("y")
Filters0 == {"abs", "ceil", "floor", "round", "size", "first", "last", "reverse", "sort", "sort_natural", "sort_numeric",
             "uniq", "compact", "sum", "upcase", "downcase", "capitalize", "strip", "lstrip", "rstrip", "escape",
             "escape_once", "strip_html", "strip_newlines", "newline_to_br", "url_encode", "url_decode", "json",
             "base64_encode", "base64_decode", "base64_url_safe_encode", "base64_url_safe_decode", "safe", "t", "gettext",
             "date", "default", "join", "map", "where", "find", "has", "currency", "money", "decimal", "datetime", "unit"}
Filters1 == {"plus", "minus", "times", "divided_by", "modulo", "at_least", "at_most", "round", "append", "prepend",
             "remove", "remove_first", "remove_last", "replace", "replace_first", "replace_last", "split", "join",
             "truncate", "truncatewords", "slice", "concat", "map", "where", "reject", "find", "find_index", "has",
             "sort", "sort_natural", "sort_numeric", "sum", "uniq", "compact", "default", "date", "json", "t",
             "ngettext", "pgettext", "npgettext", "gettext", "datetime", "decimal", "unit", "currency"}
KwFilters == {<<"datetime", "format">>, <<"datetime", "input_format">>, <<"decimal", "group_separator">>, <<"decimal", "format">>,
              <<"currency", "group_separator">>, <<"currency", "currency_code">>, <<"default", "allow_false">>, <<"t", "v">>, <<"t", "count">>,
              <<"money", "group_separator">>, <<"date", "format">>, <<"json", "indent">>, <<"sort", "key">>}
MCPool == {NOut(F(X, <<Fl(f, <<>>)>>)) : f \in Filters0}
          \cup {NOut(F(X, <<Fl(f, <<Y>>)>>)) : f \in Filters1}
          \cup {NOut(F(Y, <<Fl(f, <<X>>)>>)) : f \in Filters1}
          \cup {NOut(F(X, <<Fl(f, <<Y, X>>)>>)) : f \in {"slice", "replace", "truncate", "truncatewords", "where", "ngettext", "pgettext", "round"}}
          \cup {NOut(P(RangeE(X, Y))), NOut(P(RangeE(I(1), X))),
                For("i", X, "x", Opt(Y), NoOpt, FALSE, <<NOut(P(V("i")))>>, NoElse),
                For("i", X, "x", NoOpt, Opt(Y), FALSE, <<NOut(P(V("i")))>>, NoElse),
                For("i", RangeE(I(1), I(3)), "(1..3)", Opt(X), Opt(Y), TRUE, <<NOut(P(V("i")))>>, NoElse),
                For("i", RangeE(X, Y), "(x..y)", NoOpt, NoOpt, FALSE, <<NOut(P(V("i")))>>, NoElse),
                Include(X, "none", NilE, "", <<>>), Include(S("p"), "for", X, "", <<>>), RenderT(S("p"), "for", X, "", <<>>),
                RenderT(S("p"), "with", X, "", <<>>), Cycle("", <<X, Y>>, "|x,y"), Case(X, <<When(<<Y, I(1)>>, <<NText("w")>>)>>, NoElse),
                If(Cmp("<", X, Y), <<NText("t")>>, <<>>, NoElse), If(Contains(X, Y), <<NText("t")>>, <<>>, NoElse),
                If(In(X, Y), <<NText("t")>>, <<>>, NoElse), NOut(P([k |-> "var", segs |-> <<[t |-> "k", v |-> "x"], [t |-> "p", p |-> <<[t |-> "k", v |-> "y"]>>]>>])),
                NOut(P(VI("x", -1))), NOut(P(VI("x", 99))), NOut(P(VP("x", "size"))), NOut(P(VP("x", "first"))), NOut(P(VP("x", "last"))),
                Assign("z", F(X, <<Fl("times", <<Y>>)>>)), NOut(P([k |-> "tstr", parts |-> <<S("a"), P(X), S("b"), F(Y, <<Fl("upcase", <<>>)>>)>>, q |-> "\""])),
                With(<<WArg("w", X)>>, <<NOut(P(VP("w", "a")))>>), Call("nomacro", <<X>>, <<>>),
                \* ranges up to the value: their length, their ends, membership of a non-integer, partials once per item
                With(<<WArg("r", RangeE(I(1), X))>>, <<NOut(P(VP("r", "size"))), NOut(P(VP("r", "first"))), NOut(P(VP("r", "last")))>>),
                With(<<WArg("r", RangeE(X, Y))>>, <<NOut(P(VP("r", "size")))>>),
                If(Contains(RangeE(I(1), X), FloatE("1.5", 15, 1)), <<NText("t")>>, <<>>, NoElse),
                If(Contains(RangeE(I(1), X), S("a")), <<NText("t")>>, <<>>, NoElse), If(Contains(RangeE(I(1), X), Y), <<NText("t")>>, <<>>, NoElse),
                If(In(FloatE("1.5", 15, 1), RangeE(I(1), X)), <<NText("t")>>, <<>>, NoElse),
                Include(S("p"), "for", RangeE(I(1), X), "", <<>>), RenderT(S("p"), "for", RangeE(I(1), X), "", <<>>),
                For("i", RangeE(I(1), X), "(1..x)", Opt(I(2)), NoOpt, FALSE, <<NOut(P(V("i")))>>, NoElse),
                NOut(F(RangeE(I(1), X), <<Fl("first", <<>>)>>)), NOut(F(RangeE(I(1), X), <<Fl("size", <<>>)>>))}
          \* keyword arguments of the filters that take them
          \cup {NOut(F(X, <<Fk(fk[1], <<>>, <<WArg(fk[2], Y)>>)>>)) : fk \in KwFilters} \cup {NOut(F(Y, <<Fk(fk[1], <<>>, <<WArg(fk[2], X)>>)>>)) : fk \in KwFilters}
          \cup {NOut(F(X, <<Fk("unit", <<S("length-meter")>>, <<WArg(k, Y)>>)>>)) : k \in {"denominator", "denominator_unit", "length", "format"}}
          \cup {NOut(F(Y, <<Fk("unit", <<S("length-meter")>>, <<WArg(k, X)>>)>>)) : k \in {"denominator", "denominator_unit", "length", "format"}}
MCPoolAt(i) == MCPool
=============================================================================
