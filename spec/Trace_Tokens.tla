------------------------------ MODULE Trace_Tokens ------------------------------
(***************************************************************************)
(* C->S validation of what the library was observed to do with a source    *)
(* text (C17, C02): the harness records, per source, the token tree        *)
(* returned by tokenize() - or the error - and the outcome of parsing and  *)
(* rendering; TLC evaluates the statements below on every recorded trace   *)
(* and appends one verdict line per trace ({id, ok} or {id, ok: FALSE,     *)
(* clause}) to the file named by OUT_FILE.                                 *)
(*                                                                         *)
(* A token is [k: kind, a: start, b: stop, v: text ("" if none), hasv,     *)
(* c: children].  Offsets are 0-based, half-open, as the library reports.  *)
(***************************************************************************)
EXTENDS Integers, Sequences, TLC, Json, IOUtils

Traces == ndJsonDeserialize(IOEnv.TRACE_FILE)

VARIABLE tid

\* ---- the properties of one trace -------------------------------------------
InSource(t, L) == 0 <= t.a /\ t.a <= t.b /\ t.b <= L

\* top-level tokens partition the source: contiguous, in order, from 0 to L
Tiling(ts, L) ==
  /\ (ts # <<>>) => (ts[1].a = 0 /\ ts[Len(ts)].b = L)
  /\ (ts = <<>>) => L = 0
  /\ \A i \in DOMAIN ts : InSource(ts[i], L) /\ ts[i].a < ts[i].b
  /\ \A i \in 1..(Len(ts) - 1) : ts[i].b = ts[i + 1].a

\* a token's span is the text it was scanned from
SpanIsText(t, src) == t.hasv => SubSeq(src, t.a + 1, t.b) = t.v

\* children nest inside their parent's span, in order, without overlap
RECURSIVE Nested(_, _, _)
Nested(t, src, L) ==
  /\ InSource(t, L)
  /\ SpanIsText(t, src)
  /\ \A i \in DOMAIN t.c :
        /\ t.a <= t.c[i].a /\ t.c[i].b <= t.b
        /\ Nested(t.c[i], src, L)
  /\ \A i \in 1..(Len(t.c) - 1) : t.c[i].b <= t.c[i + 1].a

\* the error model: only LiquidError subclasses escape, errors can be turned
\* into message and location, their position lies inside the source
OutcomeOK(o, L) ==
  \/ o.kind = "ok"
  \/ /\ o.kind = "liquid"
     /\ o.probe = ""
     /\ (o.haspos => (0 <= o.pos /\ (o.pos < L \/ L = 0)))

\* the line and column an error reports for itself belong together
MinOf(a, b) == IF a <= b THEN a ELSE b
ContextOK(o, src) ==
  (o.kind = "liquid" /\ o.hasctx) =>
     \* the reported line (right-stripped) lies in the source exactly `col` characters before the position
     LET at == MinOf(o.pos, Len(src)) - o.col IN
     /\ o.line >= 1 /\ o.col >= 0
     /\ at >= 0 /\ at + Len(o.cur) <= Len(src)
     /\ SubSeq(src, at + 1, at + Len(o.cur)) = o.cur

Clause(tr) ==
  LET L == Len(tr.src) IN
  IF tr.tok.kind = "ok" /\ ~Tiling(tr.tok.tokens, L) THEN "tiling"
  ELSE IF tr.tok.kind = "ok" /\ ~(\A i \in DOMAIN tr.tok.tokens : Nested(tr.tok.tokens[i], tr.src, L)) THEN "nesting-or-span"
  ELSE IF tr.tok.kind = "nonliquid" THEN "tokenize-raised-" \o tr.tok.cls
  ELSE IF ~OutcomeOK(tr.tok, L) THEN "tokenize-error-" \o (IF tr.tok.probe # "" THEN tr.tok.probe ELSE "position")
  ELSE IF tr.parse.kind = "nonliquid" THEN "parse-raised-" \o tr.parse.cls
  ELSE IF ~OutcomeOK(tr.parse, L) THEN "parse-error-" \o (IF tr.parse.probe # "" THEN tr.parse.probe ELSE "position")
  ELSE IF tr.render.kind = "nonliquid" THEN "render-raised-" \o tr.render.cls
  ELSE IF ~OutcomeOK(tr.render, L) THEN "render-error-" \o (IF tr.render.probe # "" THEN tr.render.probe ELSE "position")
  ELSE IF ~ContextOK(tr.tok, tr.src) THEN "tokenize-error-context"
  ELSE IF ~ContextOK(tr.parse, tr.src) THEN "parse-error-context"
  ELSE IF ~ContextOK(tr.render, tr.src) THEN "render-error-context"
  ELSE IF ~tr.nodes_in_source THEN "node-position"
  ELSE ""

Verdict ==
  LET tr == Traces[tid]
      cl == Clause(tr) IN
  Serialize(ToJson([id |-> tr.id, ok |-> (cl = ""), clause |-> cl]) \o "\n", IOEnv.OUT_FILE,
            [format |-> "TXT", charset |-> "UTF-8",
             openOptions |-> <<"WRITE", "CREATE", "APPEND">>]).exitValue = 0

Init == tid \in 1..Len(Traces)
Next == UNCHANGED tid
=============================================================================
