------------------------------- MODULE LiquidSrc -------------------------------
(***************************************************************************)
(* The concrete syntax of the language: Src(nodes) is the template text of *)
(* an AST (the grammar of docs/syntax.md and docs/tag_reference.md), and   *)
(* Annot(nodes, lm, rm) is the reference statement of whitespace-control   *)
(* carry: every text node is trimmed on its left by the right marker of    *)
(* the markup before it and on its right by the left marker of the markup  *)
(* after it - across block boundaries, branch tags, end tags, comments and *)
(* raw blocks (docs/whitespace_control.md).                                *)
(***************************************************************************)
EXTENDS LiquidValues

-----------------------------------------------------------------------------
(* expressions *)
Prec(e) == CASE e.k = "or" -> 3 [] e.k = "and" -> 4 [] e.k = "cmp" -> 5
             [] e.k \in {"contains", "in"} -> 6 [] e.k = "not" -> 7 [] OTHER -> 9

RECURSIVE ESrc(_), PathSrc(_), FiltersSrc(_), SeqSrc(_, _)

Quote(e) == IF "q" \in DOMAIN e THEN e.q ELSE "'"

SeqSrc(es, sep) == JoinStr([i \in DOMAIN es |-> ESrc(es[i])], sep)

PathSrc(segs) ==
  segs[1].v \o JoinStr([i \in 1..(Len(segs) - 1) |->
      LET s == segs[i + 1] IN
      CASE s.t = "k" -> IF "br" \in DOMAIN s /\ s.br THEN "['" \o s.v \o "']" ELSE "." \o s.v
        [] s.t = "i" -> IF "sh" \in DOMAIN s THEN "." \o ToString(s.i)      \* shorthand: foo.0 (Environment.shorthand_indexes)
                        ELSE "[" \o ToString(s.i) \o "]"
        [] s.t = "p" -> "[" \o PathSrc(s.p) \o "]"], "")

FilterSrc(f) ==
  LET pos == [i \in DOMAIN f.args |-> ESrc(f.args[i])]
      kws == IF "kw" \in DOMAIN f THEN [i \in DOMAIN f.kw |-> f.kw[i].n \o ": " \o ESrc(f.kw[i].e)] ELSE <<>>
  IN f.n \o (IF pos \o kws = <<>> THEN "" ELSE ": " \o JoinStr(pos \o kws, ", "))
FiltersSrc(fs) == JoinStr([i \in DOMAIN fs |-> FilterSrc(fs[i])], " | ")

\* operand of a binary operator with precedence p on side "l"/"r": binary
\* operators of equal precedence associate to the right
Operand(e, p, side) ==
  IF Prec(e) < p \/ (Prec(e) = p /\ side = "l") \/ e.k = "not"
  THEN "(" \o ESrc(e) \o ")" ELSE ESrc(e)

ESrc(e) ==
  CASE e.k \in {"nil", "true", "false", "empty", "blank"} -> e.k
    [] e.k = "int"   -> IF "txt" \in DOMAIN e THEN e.txt ELSE ToString(e.n)     \* 1e1 is 10
    [] e.k = "float" -> e.txt                      \* as the author wrote it (1.50, 2.5e1 ...)
    [] e.k = "str"   -> Quote(e) \o e.v \o Quote(e)
    [] e.k = "var"   -> PathSrc(e.segs)
    [] e.k = "range" -> "(" \o ESrc(e.a) \o ".." \o ESrc(e.b) \o ")"
    [] e.k = "arrlit" -> SeqSrc(e.items, ", ")
    [] e.k = "tstr" ->
         Quote(e) \o JoinStr([i \in DOMAIN e.parts |->
             IF e.parts[i].k = "str" THEN e.parts[i].v ELSE "${" \o ESrc(e.parts[i]) \o "}"], "") \o Quote(e)
    [] e.k = "filtered" ->
         ESrc(e.left) \o (IF e.filters = <<>> THEN "" ELSE " | " \o FiltersSrc(e.filters))
    [] e.k = "ternary" ->
         ESrc(e.left) \o " if " \o ESrc(e.c)
         \o (IF e.alt.k = "none" THEN "" ELSE " else " \o ESrc(e.alt)
               \o (IF e.altf = <<>> THEN "" ELSE " | " \o FiltersSrc(e.altf)))
         \o (IF e.tail = <<>> THEN "" ELSE " || " \o FiltersSrc(e.tail))
    [] e.k = "not" -> "not " \o (IF Prec(e.e) < 9 THEN "(" \o ESrc(e.e) \o ")" ELSE ESrc(e.e))
    [] e.k \in {"and", "or"} ->
         Operand(e.l, Prec(e), "l") \o " " \o e.k \o " " \o Operand(e.r, Prec(e), "r")
    [] e.k = "cmp" -> Operand(e.l, 5, "l") \o " " \o e.op \o " " \o Operand(e.r, 5, "l")
    [] e.k \in {"contains", "in"} -> Operand(e.l, 6, "l") \o " " \o e.k \o " " \o Operand(e.r, 6, "l")
    [] e.k = "group" -> "(" \o ESrc(e.e) \o ")"
    [] e.k = "lambda" ->
         (IF Len(e.params) = 1 THEN e.params[1] ELSE "(" \o JoinStr(e.params, ", ") \o ")") \o " => " \o ESrc(e.body)

-----------------------------------------------------------------------------
(* markup *)
TagSrc(wc, body) == "{%" \o wc[1] \o " " \o body \o " " \o wc[2] \o "%}"
OutSrc(wc, body) == "{{" \o wc[1] \o " " \o body \o " " \o wc[2] \o "}}"

KwSrc(kwargs) == JoinStr([i \in DOMAIN kwargs |-> kwargs[i].n \o ": " \o ESrc(kwargs[i].e)], ", ")

RECURSIVE Src(_), NSrc(_), Lines(_), LSrc(_)
Src(nodes) == JoinStr([i \in DOMAIN nodes |-> NSrc(nodes[i])], "")

LoopArgs(n) ==
  n.n \o " in " \o ESrc(n.it)
  \o (IF n.limit.has THEN " limit: " \o ESrc(n.limit.e) ELSE "")
  \o (IF n.offset.has THEN " offset: " \o (IF n.offset.cont THEN "continue" ELSE ESrc(n.offset.e)) ELSE "")
  \o (IF n.rev THEN " reversed" ELSE "")

\* a tag-level name may be written as a bare word or as a quoted string
\* (parse_string_or_identifier): nodes carrying qn = TRUE use the quoted spelling
QName(n, nm) == IF "qn" \in DOMAIN n /\ n.qn THEN "'" \o nm \o "'" ELSE nm

\* what stands between the delimiters of a tag (and on a line of a liquid tag)
TagHead(n) ==
  CASE n.k = "echo"   -> "echo " \o ESrc(n.e)
    [] n.k = "assign" -> "assign " \o n.n \o " = " \o ESrc(n.e)
    [] n.k = "capture" -> "capture " \o n.n
    [] n.k \in {"if", "unless"} -> n.k \o " " \o ESrc(n.c)
    [] n.k = "case" -> "case " \o ESrc(n.e)
    [] n.k = "for" -> "for " \o LoopArgs(n)
    [] n.k = "tablerow" -> "tablerow " \o LoopArgs(n) \o (IF n.cols.has THEN " cols: " \o ESrc(n.cols.e) ELSE "")
    [] n.k \in {"break", "continue"} -> n.k
    [] n.k = "incr" -> "increment " \o QName(n, n.n)
    [] n.k = "decr" -> "decrement " \o QName(n, n.n)
    [] n.k = "cycle" -> "cycle " \o (IF n.group = "" THEN "" ELSE QName(n, n.group) \o ": ") \o SeqSrc(n.items, ", ")
    [] n.k = "with" -> "with " \o KwSrc(n.args)
    [] n.k \in {"include", "render"} ->
         n.k \o " " \o ESrc(n.name)
            \o (IF n.mode = "none" THEN "" ELSE " " \o n.mode \o " " \o ESrc(n.var)
                    \o (IF n.alias = "" THEN "" ELSE " as " \o QName(n, n.alias)))
            \o (IF n.kwargs = <<>> THEN "" ELSE ", " \o KwSrc(n.kwargs))
    [] n.k = "macro" ->
         "macro " \o QName(n, n.n) \o (IF n.params = <<>> THEN "" ELSE " " \o
              JoinStr([i \in DOMAIN n.params |-> n.params[i].n \o
                          (IF n.params[i].has THEN ": " \o ESrc(n.params[i].e) ELSE "")], ", "))
    [] n.k = "call" ->
         "call " \o QName(n, n.n) \o (IF n.args = <<>> /\ n.kwargs = <<>> THEN "" ELSE " " \o
              JoinStr([i \in DOMAIN n.args |-> ESrc(n.args[i])] \o
                      (IF n.kwargs = <<>> THEN <<>> ELSE <<KwSrc(n.kwargs)>>), ", "))
EndName(n) == CASE n.k = "incr" -> "" [] OTHER -> "end" \o n.k

ElseSrc(els) == IF els.has THEN TagSrc(els.wc, "else") \o Src(els.body) ELSE ""

NSrc(n) ==
  CASE n.k = "text" -> n.v
    [] n.k = "raw" -> TagSrc(<<n.wc[1], n.wc[2]>>, "raw") \o n.v \o TagSrc(<<n.wc[3], n.wc[4]>>, "endraw")
    [] n.k = "comment" ->
         (CASE n.kind = "hash"   -> LET h == IF "hashes" \in DOMAIN n /\ n.hashes = 2 THEN "##" ELSE "#" IN
                                    "{" \o h \o n.wc[1] \o n.v \o n.wc[2] \o h \o "}"
            [] n.kind = "inline" -> "{%" \o n.wc[1] \o " # " \o n.v \o " " \o n.wc[2] \o "%}"
            [] n.kind = "block"  -> TagSrc(<<n.wc[1], "">>, "comment") \o n.v \o TagSrc(<<"", n.wc[2]>>, "endcomment"))
    [] n.k = "out"    -> OutSrc(n.wc, ESrc(n.e))
    [] n.k \in {"echo", "assign", "break", "continue", "incr", "decr", "cycle", "include", "render", "call"} ->
         TagSrc(n.wc, TagHead(n))
    [] n.k \in {"capture", "with", "macro", "tablerow"} ->
         TagSrc(n.wc, TagHead(n)) \o Src(n.body) \o TagSrc(n.ewc, EndName(n))
    [] n.k \in {"if", "unless"} ->
         TagSrc(n.wc, TagHead(n)) \o Src(n.body)
         \o JoinStr([i \in DOMAIN n.elifs |->
               TagSrc(n.elifs[i].wc, "elsif " \o ESrc(n.elifs[i].c)) \o Src(n.elifs[i].body)], "")
         \o ElseSrc(n.else) \o TagSrc(n.ewc, EndName(n))
    [] n.k = "case" ->
         TagSrc(n.wc, TagHead(n)) \o n.lead
         \o JoinStr([i \in DOMAIN n.whens |->
               TagSrc(n.whens[i].wc, "when " \o SeqSrc(n.whens[i].es, ", ")) \o Src(n.whens[i].body)], "")
         \o ElseSrc(n.else) \o TagSrc(n.ewc, "endcase")
    [] n.k = "for" ->
         TagSrc(n.wc, TagHead(n)) \o Src(n.body) \o ElseSrc(n.else) \o TagSrc(n.ewc, "endfor")
    [] n.k = "liquid" -> "{%" \o n.wc[1] \o " liquid\n" \o Lines(n.body) \o "\n" \o n.wc[2] \o "%}"
    [] n.k = "extends" -> TagSrc(n.wc, "extends '" \o n.name \o "'")
    [] n.k = "block" ->
         TagSrc(n.wc, "block " \o QName(n, n.n) \o (IF n.required THEN " required" ELSE "")) \o Src(n.body)
         \o TagSrc(n.ewc, "endblock" \o (IF n.endname = "" THEN "" ELSE " " \o QName(n, n.endname)))

\* the same constructs as line statements inside {% liquid %} (no delimiters, no
\* whitespace control, no literal text)
Lines(nodes) == JoinStr([i \in DOMAIN nodes |-> LSrc(nodes[i])], "\n")
LElse(els) == IF els.has THEN "\nelse\n" \o Lines(els.body) ELSE ""
LSrc(n) ==
  CASE n.k = "comment" -> "# " \o n.v
    [] n.k \in {"echo", "assign", "break", "continue", "incr", "decr", "cycle", "include", "render", "call"} -> TagHead(n)
    [] n.k \in {"capture", "with", "macro", "tablerow"} -> TagHead(n) \o "\n" \o Lines(n.body) \o "\n" \o EndName(n)
    [] n.k \in {"if", "unless"} ->
         TagHead(n) \o "\n" \o Lines(n.body)
         \o JoinStr([i \in DOMAIN n.elifs |-> "\nelsif " \o ESrc(n.elifs[i].c) \o "\n" \o Lines(n.elifs[i].body)], "")
         \o LElse(n.else) \o "\n" \o EndName(n)
    [] n.k = "case" ->
         TagHead(n)
         \o JoinStr([i \in DOMAIN n.whens |-> "\nwhen " \o SeqSrc(n.whens[i].es, ", ") \o "\n" \o Lines(n.whens[i].body)], "")
         \o LElse(n.else) \o "\nendcase"
    [] n.k = "for" -> TagHead(n) \o "\n" \o Lines(n.body) \o LElse(n.else) \o "\nendfor"

-----------------------------------------------------------------------------
(* whitespace-control carry *)
\* (a text neighbour - only in derived programs - trims nothing)
FirstLeft(n) == IF n.k = "text" THEN "+" ELSE n.wc[1]
LastRight(n) ==
  CASE n.k = "text" -> "+"
    [] n.k \in {"capture", "if", "unless", "case", "for", "with", "macro", "tablerow", "block"} -> n.ewc[2]
    [] n.k = "raw" -> n.wc[4]
    [] OTHER -> n.wc[2]

RECURSIVE Annot(_, _, _), AnnotNode(_)

\* nodes of one body; lm = right marker of the tag that opens the body,
\* rm = left marker of the tag that closes it ("" = none: environment default)
Annot(nodes, lm, rm) ==
  [i \in DOMAIN nodes |->
     LET n == nodes[i] IN
     IF n.k = "text"
     THEN [n EXCEPT !.lm = IF i = 1 THEN lm ELSE LastRight(nodes[i - 1]),
                    !.rm = IF i = Len(nodes) THEN rm ELSE FirstLeft(nodes[i + 1])]
     ELSE AnnotNode(n)]

\* left marker of the tag that follows branch j of an if/unless/case
NextBranchLeft(branches, j, els, ewc) ==
  IF j < Len(branches) THEN branches[j + 1].wc[1]
  ELSE IF els.has THEN els.wc[1] ELSE ewc[1]

AnnotElse(els, ewc) ==
  IF els.has THEN [els EXCEPT !.body = Annot(els.body, els.wc[2], ewc[1])] ELSE els

AnnotNode(n) ==
  CASE n.k \in {"capture", "with", "macro", "tablerow", "block"} -> [n EXCEPT !.body = Annot(n.body, n.wc[2], n.ewc[1])]
    [] n.k \in {"if", "unless"} ->
         [n EXCEPT !.body = Annot(n.body, n.wc[2], NextBranchLeft(n.elifs, 0, n.else, n.ewc)),
                   !.elifs = [j \in DOMAIN n.elifs |->
                       [n.elifs[j] EXCEPT !.body = Annot(n.elifs[j].body, n.elifs[j].wc[2],
                                                         NextBranchLeft(n.elifs, j, n.else, n.ewc))]],
                   !.else = AnnotElse(n.else, n.ewc)]
    [] n.k = "case" ->
         [n EXCEPT !.whens = [j \in DOMAIN n.whens |->
                       [n.whens[j] EXCEPT !.body = Annot(n.whens[j].body, n.whens[j].wc[2],
                                                         NextBranchLeft(n.whens, j, n.else, n.ewc))]],
                   !.else = AnnotElse(n.else, n.ewc)]
    [] n.k = "for" ->
         [n EXCEPT !.body = Annot(n.body, n.wc[2], IF n.else.has THEN n.else.wc[1] ELSE n.ewc[1]),
                   !.else = AnnotElse(n.else, n.ewc)]
    [] OTHER -> n

\* the same program with every whitespace-control marker removed
RECURSIVE ClearWc(_)
ClearBranch(b) == [b EXCEPT !.wc = <<"", "">>, !.body = ClearWc(b.body)]
ClearWc(nodes) ==
  [i \in DOMAIN nodes |->
     LET n == nodes[i] IN
     CASE n.k = "text" -> n
       [] n.k = "raw" -> [n EXCEPT !.wc = <<"", "", "", "">>]
       [] n.k \in {"capture", "with", "macro", "tablerow", "block"} -> [n EXCEPT !.wc = <<"", "">>, !.ewc = <<"", "">>, !.body = ClearWc(n.body)]
       [] n.k \in {"if", "unless"} ->
            [n EXCEPT !.wc = <<"", "">>, !.ewc = <<"", "">>, !.body = ClearWc(n.body),
                      !.elifs = [j \in DOMAIN n.elifs |-> ClearBranch(n.elifs[j])],
                      !.else = ClearBranch(n.else)]
       [] n.k = "case" ->
            [n EXCEPT !.wc = <<"", "">>, !.ewc = <<"", "">>,
                      !.whens = [j \in DOMAIN n.whens |-> ClearBranch(n.whens[j])],
                      !.else = ClearBranch(n.else)]
       [] n.k = "for" ->
            [n EXCEPT !.wc = <<"", "">>, !.ewc = <<"", "">>, !.body = ClearWc(n.body), !.else = ClearBranch(n.else)]
       [] OTHER -> [n EXCEPT !.wc = <<"", "">>]]

\* a whole template: no markup before the first or after the last node
AnnotTemplate(nodes) == Annot(nodes, "", "")
=============================================================================
