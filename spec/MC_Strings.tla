------------------------------- MODULE MC_Strings -------------------------------
(* Source-text enumeration for the input-universal properties (C02, C17, C20):  *)
(* every sequence of up to MaxLen symbols of an alphabet biased towards Liquid  *)
(* markup, optionally inside a fixed wrapper (so that the symbols land in an    *)
(* expression).  No semantics here: what must hold of each source is stated in  *)
(* Trace_Tokens.tla and checked there on what the library was observed to do.   *)
EXTENDS Integers, Sequences, TLC, Json, IOUtils

CONSTANTS Alphabet,   \* sequence of symbol texts
          MaxLen, Prefix, Suffix, Focus

VARIABLES src, n

Init == src = "" /\ n = 0
Next == /\ n < MaxLen
        /\ \E i \in DOMAIN Alphabet : src' = src \o Alphabet[i]
        /\ n' = n + 1

Export ==
  Serialize(ToJson([focus |-> Focus, src |-> Prefix \o src \o Suffix]) \o "\n", IOEnv.OUT_FILE,
            [format |-> "TXT", charset |-> "UTF-8",
             openOptions |-> <<"WRITE", "CREATE", "APPEND">>]).exitValue = 0

\* alphabets (DESIGN.md appendix D)
Conc == JsonDeserialize("concrete.json")
NEL == Conc.wide[4].p           \* U+0085: a line break to str.splitlines(), not to a count of "\n"
BOM == Conc.wide[9].p           \* U+FEFF: a character like any other to the scanner (a file saved with a byte order mark)
MarkupBreaks == <<"{{", "}}", "{%", "%}", "if x", "x", "'", "\r", "\n", NEL, "\f", BOM>>
Markup == <<"{{", "}}", "{%", "%}", "{#", "#}", "#", "-", "~", "raw", "endraw", "comment", "endcomment",
            "liquid", "if x", "endif", "ab", " ", "\n", "{", "}", "%", "'", "\"", "\\", "x", "1">>
Expr == <<"x", "and", "or", "not", "in", "contains", "if", "else", "with", "for", "as", "nil", "true",
          "1", ".", "..", "[", "]", "(", ")", "'", "\"", "\\", "${", "}", "|", "||", ":", ",", "=", "=>",
          "==", "<", "-", "e", "e999", " ", "\n", "@">>
\* expression text for the serialisation round trip (C12): what str() must put back - brackets around names that are
\* not identifiers, quotes of both kinds, grouping, the comma of a one-item array, interpolation
ExprRT == <<"x", "y", " ", "or", "not", "true", "1", ".", "[", "]", "(", ")", "'", "\"", "${", "}", "|", ",", "==", "a b", "\\", "first">>
\* text for strip_html; numbers beyond what CPython converts between int and str unasked (@DIGITS@ is 5000 nines)
Html == <<"<", ">", "!", "[", "]", "-", "/", "a", "script", "&", ";", "#", " ", "=", "\"", "?">>
ExprBig == <<"x", "n", "1", "@DIGITS@", ".", "[", "]", "(", ")", "..", "-", "e", " | plus: ", " | times: ", " contains ", " == ", " ">>
MarkupSmall == <<"{{", "}}", "{%", "%}", "{#", "#}", "-", "raw", "endraw", "if x", "endif", "ab", " ", "\n", "'", "x">>
ExprSmall == <<"x", "and", "not", "contains", "if", "else", "1", ".", "..", "[", "]", "(", ")", "'", "\"",
               "${", "}", "|", ":", ",", "==", "-", "e999", " ">>
=============================================================================
