------------------------------ MODULE LiquidLimits ------------------------------
(***************************************************************************)
(* The output-limit mechanism as the code implements it (output.py:        *)
(* LimitedStringIO; context.py: get_output_buffer): a chain of buffers,    *)
(* each created with limit - (bytes already in its parent), each write     *)
(* refused when it would push the buffer past its own limit.  Operations:  *)
(* write n bytes, open a capture buffer, close it (captured text may later *)
(* be written out by the template: a separate write).                      *)
(*                                                                         *)
(* TLC checks, for every sequence of operations up to MaxOps:              *)
(*   ChainWithinLimit  bytes along the active chain never exceed Limit     *)
(*   ReturnedWithinLimit  what render() returns never exceeds Limit        *)
(*   Complete  a write is refused only if the chain would exceed Limit     *)
(* and - as a non-vacuity check - refutes them when the carry is dropped.  *)
(***************************************************************************)
EXTENDS Integers, Sequences, TLC

CONSTANTS Limit, MaxWrite, MaxOps, Dev

VARIABLES bufs,    \* chain of [size, limit], main buffer first
          failed, nops, lastRefused
vars == <<bufs, failed, nops, lastRefused>>

RECURSIVE Sum(_)
Sum(bs) == IF bs = <<>> THEN 0 ELSE bs[1].size + Sum(Tail(bs))

Init == bufs = <<[size |-> 0, limit |-> Limit]>> /\ failed = FALSE /\ nops = 0 /\ lastRefused = FALSE

Top == bufs[Len(bufs)]
Write(n) ==
  /\ ~failed /\ nops < MaxOps
  /\ IF Top.size + n > Top.limit
     THEN /\ failed' = TRUE /\ bufs' = bufs /\ lastRefused' = (Sum(bufs) + n > Limit)
     ELSE /\ bufs' = [bufs EXCEPT ![Len(bufs)].size = @ + n] /\ failed' = FALSE /\ lastRefused' = TRUE
  /\ nops' = nops + 1
OpenCapture ==
  /\ ~failed /\ nops < MaxOps /\ Len(bufs) < 3
  /\ bufs' = Append(bufs, [size |-> 0, limit |-> IF "DropCarry" \in Dev THEN Limit ELSE Top.limit - Top.size])
  /\ nops' = nops + 1 /\ UNCHANGED <<failed, lastRefused>>
CloseCapture ==
  /\ ~failed /\ nops < MaxOps /\ Len(bufs) > 1
  /\ bufs' = SubSeq(bufs, 1, Len(bufs) - 1)
  /\ nops' = nops + 1 /\ UNCHANGED <<failed, lastRefused>>
Next == (\E n \in 1..MaxWrite : Write(n)) \/ OpenCapture \/ CloseCapture

ChainWithinLimit == Sum(bufs) <= Limit
ReturnedWithinLimit == bufs[1].size <= Limit
\* a refusal is justified: the chain really would have exceeded the limit
Complete == failed => lastRefused
=============================================================================
