------------------------------- MODULE MC_Filters -------------------------------
(***************************************************************************)
(* C19: the defining laws of the built-in filters, stated over the         *)
(* reference definitions (LiquidFilters / LiquidSem!ApplyLambda) and       *)
(* checked by TLC on every input of the pools below; and the export of     *)
(* every single application (filter, left, arguments, result) for          *)
(* per-transition conformance of the library.                              *)
(***************************************************************************)
EXTENDS LiquidSem, LiquidAst, IOUtils

CONSTANTS Mode, Focus      \* Mode: "laws" | "apps"

VARIABLE app
vars == <<app>>

CfgD == Cfg("+", TRUE, FALSE, "default")
St0 == InitState(<<>>, <<<<>>, <<>>, <<>>, <<>>>>, CfgD)

\* ---- pools ----------------------------------------------------------------------
RECURSIVE SeqsUpTo(_, _)
SeqsUpTo(E, n) == IF n = 0 THEN {<<>>} ELSE SeqsUpTo(E, n - 1) \cup {Append(s, x) : s \in SeqsUpTo(E, n - 1), x \in E}

Ints == {IntV(-2), IntV(0), IntV(3), IntV(7), IntV(10)}
IntsPlain == {IntV(3), IntV(7), IntV(10), IntV(-2)}
Strs == {Str(""), Str("a"), Str("b"), Str("ab"), Str(" a b "), Str("a,b"), Str("A-b"), Str("\t x\n")}
IntArrs == {Arr(s) : s \in SeqsUpTo({IntV(2), IntV(3), IntV(7)}, 3)}
StrArrs == {Arr(s) : s \in SeqsUpTo({Str("a"), Str("b"), Str("ab")}, 3)}
NilArrs == {Arr(s) : s \in SeqsUpTo({IntV(2), Nil, Str("a")}, 3)}
H(a, t) == Hash(<< <<"a", a>>, <<"t", Str(t)>> >>)
HashEls == {H(IntV(2), "u"), H(IntV(3), "v"), H(IntV(2), "w"), Hash(<< <<"t", Str("q")>> >>), H(Nil, "r")}
HashArrs == {Arr(s) : s \in SeqsUpTo(HashEls, 3)}
\* properties that Python takes for false and Liquid for true: 0, the empty string, an empty array
ZeroEls == {H(IntV(0), "z"), H(Bool(FALSE), "f"), H(IntV(1), "o"), H(Str(""), "e"), H(Nil, "r"), H(Bool(TRUE), "y")}
ZeroArrs == {Arr(s) : s \in SeqsUpTo(ZeroEls, 2)} \cup {Arr(<<H(IntV(0), "z"), H(Bool(FALSE), "f"), H(Str(""), "e"), H(Nil, "r")>>)}
\* the same hash written with its keys in the other order: equal, so a duplicate
HRev(a, t) == Hash(<< <<"t", Str(t)>>, <<"a", a>> >>)
PermArrs == {Arr(<<H(IntV(2), "u"), HRev(IntV(2), "u"), H(IntV(3), "v")>>), Arr(<<HRev(IntV(3), "v"), H(IntV(2), "u"), H(IntV(3), "v"), HRev(IntV(2), "u")>>)}
NestedArgs == {Arr(<<Arr(<<IntV(8), IntV(9)>>), IntV(5)>>), Arr(<<Arr(<<>>)>>), Arr(<<IntV(4), Arr(<<Arr(<<IntV(6)>>)>>)>>)}
WordStrs == {Str(""), Str("a"), Str("a b"), Str("a b c"), Str("ab cd ef gh"), Str("a  b"), Str(" a b"), Str("a\tb c")}
MixStrs == {Arr(s) : s \in SeqsUpTo({Str("b"), Str("B"), Str("a"), Str("Ab")}, 3)}
NumStrs == {Arr(s) : s \in SeqsUpTo({IntV(10), Str("9"), IntV(-2), Str("10")}, 3)}
Special == {Str(""), Str("a b"), Str("a+b&c=d/e?f"), Str("<a href='x'>\"q\"</a>"), Str("100%"), Str("%41%20%3C+%7e"), Str("&lt;b&gt; &amp; &quot;x&#39;"), Str("a & b < c"), Str("&amp;amp;")}
SliceStarts == {IntV(-7), IntV(-3), IntV(-1), IntV(0), IntV(1), IntV(2), IntV(5)}
SliceLens == {IntV(-1), IntV(0), IntV(1), IntV(2), IntV(9)}
Sliceable == {Str(""), Str("a"), Str("hello"), Arr(<<>>), Arr(<<IntV(2), IntV(3), IntV(7)>>), Arr(<<Str("a")>>)}
SizeOf(v) == IF v.t = "str" THEN Len(v.v) ELSE Len(v.v)
\* floats written with a few digits: 0.5 2.5 -7.5 0.1 0.3 1.25 3.0 20.0 -0.25 2.675
Decs == {Dec(5, 1), Dec(25, 1), Dec(-75, 1), Dec(1, 1), Dec(3, 1), Dec(125, 2), Dec(30, 1), Dec(200, 1), Dec(-25, 2), Dec(2675, 3)}
DecArrs == {Arr(s) : s \in SeqsUpTo({Dec(1, 1), Dec(2, 1), Dec(25, 1), IntV(2), Dec(-5, 1)}, 3)}
Bigs == {BigInt("1000000000000000000000000000000"), BigInt("123456789012345678901234567890123"), BigInt("9007199254740993")}
NumStrsD == {Str("1.5"), Str(" 2.50 "), Str("-0.25")}
NumEq(x, y) == ~IsErr(x) /\ ~IsErr(y) /\ DEq(DecOf(x), DecOf(y))
Nested == {Arr(<<IntV(2), Arr(<<IntV(3), Arr(<<IntV(7)>>)>>)>>), Arr(<<Arr(<<>>), IntV(2)>>)}

Ap(n, l, args) == Apply(n, l, args, CfgD)
Ok(v) == ~IsErr(v)
LamWhere(cond) == Lam(<<"x">>, cond)
XA == VP("x", "a")
ApL(n, lam, l) == ApplyLambda(n, lam, l, St0)

\* multiset equality of two sequences of scalars
Count(s, x) == Cardinality({i \in DOMAIN s : s[i] = x})
SameBag(s, t) == Len(s) = Len(t) /\ \A i \in DOMAIN s : Count(s, s[i]) = Count(t, s[i])
Ordered(s) == \A i \in 1..(Len(s) - 1) : ~ValLt(s[i + 1], s[i])

\* ---- laws -----------------------------------------------------------------------
LawSort == \A a \in IntArrs \cup StrArrs :
             LET r == Ap("sort", a, <<>>) IN Ok(r) /\ SameBag(r.v, a.v) /\ Ordered(r.v)
LawReverse == \A a \in IntArrs \cup StrArrs \cup NilArrs :
             /\ Ap("reverse", Ap("reverse", a, <<>>), <<>>) = a
             /\ (a.v # <<>> => Ap("first", Ap("reverse", a, <<>>), <<>>) = Ap("last", a, <<>>))
LawUniq == \A a \in StrArrs :
             LET u == Ap("uniq", a, <<>>) IN
             /\ Ok(u) /\ Ap("uniq", u, <<>>) = u
             /\ \A i, j \in DOMAIN u.v : i # j => u.v[i] # u.v[j]
             /\ \A i \in DOMAIN a.v : \E j \in DOMAIN u.v : u.v[j] = a.v[i]
             /\ \A i, j \in DOMAIN u.v : i < j =>
                   (CHOOSE k \in DOMAIN a.v : a.v[k] = u.v[i] /\ \A m \in 1..(k - 1) : a.v[m] # u.v[i])
                   < (CHOOSE k \in DOMAIN a.v : a.v[k] = u.v[j] /\ \A m \in 1..(k - 1) : a.v[m] # u.v[j])
LawCompact == \A a \in NilArrs :
             LET c == Ap("compact", a, <<>>) IN
             /\ \A i \in DOMAIN c.v : c.v[i] # Nil
             /\ c.v = SelectSeq(a.v, LAMBDA x : x # Nil)
LawConcat == \A a \in IntArrs, b \in {Arr(<<>>), Arr(<<IntV(9)>>), Arr(<<IntV(2), IntV(2)>>)} :
             LET c == Ap("concat", a, <<b>>) IN
             /\ c.v = a.v \o b.v
             /\ Ap("size", c, <<>>) = IntV(Len(a.v) + Len(b.v))
             /\ Ap("sum", c, <<>>) = IntV(Ap("sum", a, <<>>).n + Ap("sum", b, <<>>).n)
LawConcatNested == \A a \in IntArrs, b \in NestedArgs :
             LET c == Ap("concat", a, <<b>>) IN Ok(c) /\ Len(c.v) = Len(a.v) + Len(b.v) /\ \A i \in DOMAIN b.v : c.v[Len(a.v) + i] = b.v[i]
LawUniqDeep == \A a \in PermArrs :
             LET u == Ap("uniq", a, <<>>) IN
             /\ Ok(u) /\ \A i, j \in DOMAIN u.v : i # j => ~LEq(u.v[i], u.v[j])
             /\ \A i \in DOMAIN a.v : \E j \in DOMAIN u.v : LEq(u.v[j], a.v[i])
LawSlice == \A x \in Sliceable, st \in SliceStarts, ln \in SliceLens :
             LET r == Ap("slice", x, <<st, ln>>) IN
             Ok(r) => /\ SizeOf(r) <= MaxOf(ln.n, 0)                      \* never more than the length asked for
                      /\ (st.n >= 0 /\ ln.n >= 0 /\ st.n + ln.n <= SizeOf(x)) => SizeOf(r) = ln.n
                      /\ (st.n = 0 /\ ln.n >= SizeOf(x)) => r.v = x.v
                      /\ (st.n >= 0 /\ st.n <= SizeOf(x) /\ x.t = "str") =>
                            Ap("slice", x, <<IntV(0), st>>).v \o Ap("slice", x, <<st, IntV(99)>>).v = x.v
                      /\ (st.n < 0 /\ -st.n <= SizeOf(x)) => r = Ap("slice", x, <<IntV(SizeOf(x) + st.n), ln>>)
LawReplaceLast == \A s \in Strs \cup WordStrs, t \in {Str("a"), Str(" "), Str("ab"), Str("b c")} :
             LET r == Ap("replace_last", s, <<t, Str("Z")>>) IN
             /\ Ok(r)
             /\ (~HasSub(s.v, t.v)) => r.v = s.v
             /\ HasSub(s.v, t.v) => /\ Len(r.v) = Len(s.v) - Len(t.v) + 1
                                   /\ (Ap("remove_last", s, <<t>>).v = ReplaceAll(r.v, "Z", "") \/ HasSub(s.v, "Z"))
                                   \* everything after the replaced occurrence is free of t's start ... the last one
                                   /\ \E i \in 1..Len(s.v) : /\ At(s.v, i, t.v)
                                                              /\ r.v = SubSeq(s.v, 1, i - 1) \o "Z" \o SubSeq(s.v, i + Len(t.v), Len(s.v))
                                                              /\ \A j \in (i + 1)..Len(s.v) : ~At(s.v, j, t.v)
LawTruncateWords == \A s \in WordStrs, n \in {IntV(1), IntV(2), IntV(3), IntV(4)} :
             LET r == Ap("truncatewords", s, <<n, Str("~")>>) IN
             Ok(r) => /\ (Len(Words(s.v, "")) <= n.n => r.v = s.v)          \* fewer (or just as many) words: unchanged
                      /\ (Len(Words(s.v, "")) > n.n => r.v = JoinStr(SubSeq(Words(s.v, ""), 1, n.n), " ") \o "~")
LawSortNatural == \A a \in MixStrs :
             LET r == Ap("sort_natural", a, <<>>) IN
             Ok(r) /\ SameBag(r.v, a.v) /\ \A i \in 1..(Len(r.v) - 1) : ~StrLt(DownCase(r.v[i + 1].v), DownCase(r.v[i].v))
LawSortNumeric == \A a \in NumStrs :
             LET r == Ap("sort_numeric", a, <<>>) IN
             Ok(r) /\ SameBag(r.v, a.v) /\ \A i \in 1..(Len(r.v) - 1) : NumLeft(r.v[i]) <= NumLeft(r.v[i + 1])
LawUrl == \A s \in Special \cup Strs :
             LET e == Ap("url_encode", s, <<>>) IN
             AsciiOnly(s.v) => /\ Ok(e) /\ Ap("url_decode", e, <<>>).v = s.v
                               /\ \A i \in 1..Len(e.v) : Find(UrlSafe, Ch(e.v, i)) > 0 \/ Ch(e.v, i) \in {"%", "+"}
LawEscapeOnce == \A s \in Special :
             LET o == Ap("escape_once", s, <<>>) IN
             Ok(o) => /\ Ap("escape_once", o, <<>>) = o
                      /\ Ap("escape_once", Ap("escape", s, <<>>), <<>>).v = Ap("escape", s, <<>>).v
                      /\ \A i \in 1..Len(o.v) : Ch(o.v, i) \notin {"<", ">", "\"", "'"}
LawFlatten == \A a \in Nested : Ap("sum", a, <<>>) = IntV(SumInts(Flatten(a.v, 5))) /\ \A i \in DOMAIN Ap("reverse", a, <<>>).v : Ap("reverse", a, <<>>).v[i].t # "arr"
LawPartition == \A h \in HashArrs, v \in {Nil, IntV(2), IntV(3), Str("u")} :
             LET w == Ap("where", h, <<Str("a"), v>>)
                 r == Ap("reject", h, <<Str("a"), v>>) IN
             (Ok(w) /\ Ok(r)) =>
               /\ Len(w.v) + Len(r.v) = Len(h.v)
               /\ \A i \in DOMAIN h.v : (\E j \in DOMAIN w.v : w.v[j] = h.v[i]) # (\E j \in DOMAIN r.v : r.v[j] = h.v[i])
                                        \/ Count(h.v, h.v[i]) > 1
               /\ SelectSeq(h.v, LAMBDA x : \E j \in DOMAIN w.v : w.v[j] = x) = w.v \/ \E i \in DOMAIN h.v : Count(h.v, h.v[i]) > 1
LawFind == \A h \in HashArrs, v \in {Nil, IntV(2), IntV(3), IntV(99)} :
             LET w == Ap("where", h, <<Str("a"), v>>)
                 f == Ap("find", h, <<Str("a"), v>>)
                 fi == Ap("find_index", h, <<Str("a"), v>>)
                 hs == Ap("has", h, <<Str("a"), v>>) IN
             (Ok(w) /\ Ok(f) /\ Ok(fi) /\ Ok(hs)) =>
               /\ f = (IF w.v = <<>> THEN Nil ELSE w.v[1])
               /\ hs = Bool(w.v # <<>>)
               /\ (fi = Nil) = (w.v = <<>>)
               /\ (fi # Nil => h.v[fi.n + 1] = f)
LawKeyLambda == \A h \in HashArrs :
             /\ \A v \in {IntV(2), IntV(3), IntV(99)} : \A f \in {"where", "reject", "find", "find_index", "has"} :
                  LET k == Ap(f, h, <<Str("a"), v>>)
                      l == ApL(f, LamWhere(Cmp("==", XA, [k |-> "int", n |-> v.n])), h) IN
                  (Ok(k) /\ Ok(l)) => k = l
             /\ \A f \in {"where", "reject", "find", "find_index", "has"} :
                  LET k == Ap(f, h, <<Str("a")>>)
                      l == ApL(f, LamWhere(XA), h) IN
                  (Ok(k) /\ Ok(l)) => k = l
             /\ \A z \in ZeroArrs : \A f \in {"where", "reject", "find", "find_index", "has"} :
                  LET k == Ap(f, z, <<Str("a")>>)
                      l == ApL(f, LamWhere(XA), z) IN
                  Ok(k) /\ Ok(l) /\ k = l
             /\ \A key \in {"a", "t"} : \A f \in {"map", "compact", "sort", "uniq", "sum"} :
                  LET k == Ap(f, h, <<Str(key)>>)
                      l == ApL(f, Lam(<<"x">>, VP("x", key)), h) IN
                  (Ok(k) /\ Ok(l)) => k = l
LawMap == \A h \in HashArrs : LET m == Ap("map", h, <<Str("t")>>) IN
             Ok(m) /\ Len(m.v) = Len(h.v) /\ \A i \in DOMAIN h.v : m.v[i] = Prop(h.v[i], "t")
LawSplitJoin == \A s \in Strs, sep \in {Str(","), Str(" "), Str("ab")} :
             LET parts == Ap("split", s, <<sep>>) IN
             /\ Ok(parts)
             /\ (s.v # "" /\ s.v # sep.v) => Ap("join", parts, <<sep>>).v = s.v
             /\ \A i \in DOMAIN parts.v : ~HasSub(parts.v[i].v, sep.v) \/ sep.v = ""
LawStrip == \A s \in Strs :
             /\ Ap("strip", s, <<>>) = Ap("lstrip", Ap("rstrip", s, <<>>), <<>>)
             /\ Ap("strip", Ap("strip", s, <<>>), <<>>) = Ap("strip", s, <<>>)
             /\ Ap("downcase", Ap("upcase", s, <<>>), <<>>) = Ap("downcase", s, <<>>)
             /\ Ap("size", Ap("upcase", s, <<>>), <<>>) = Ap("size", s, <<>>)
LawAppend == \A s \in Strs, t \in Strs :
             /\ Ap("append", s, <<t>>).v = Ap("prepend", t, <<s>>).v
             /\ Ap("size", Ap("append", s, <<t>>), <<>>) = IntV(Len(s.v) + Len(t.v))
             /\ Ap("remove", Ap("append", Str("#"), <<t>>), <<Str("#")>>).v = ReplaceAll(t.v, "#", "")
             /\ (t.v # "" /\ ~HasSub(s.v, t.v)) => Ap("replace", s, <<t, Str("zz")>>).v = s.v
LawTruncate == \A s \in Strs, n \in {IntV(0), IntV(2), IntV(3), IntV(10)} :
             LET r == Ap("truncate", s, <<n, Str("..")>>) IN
             /\ Ok(r) /\ (Len(s.v) <= n.n => r.v = s.v)
             /\ Len(r.v) <= MaxOf(n.n, 2)
LawArith == \A a \in Ints, b \in Ints :
             /\ Ap("minus", Ap("plus", a, <<b>>), <<b>>) = a
             /\ Ap("plus", a, <<b>>) = Ap("plus", b, <<a>>)
             /\ Ap("times", a, <<IntV(1)>>) = a /\ Ap("times", a, <<b>>) = Ap("times", b, <<a>>)
             /\ Ap("abs", a, <<>>).n >= 0
             /\ Ap("at_least", a, <<b>>).n >= b.n /\ Ap("at_least", a, <<b>>).n >= a.n
             /\ Ap("at_most", a, <<b>>).n <= b.n /\ Ap("at_most", a, <<b>>).n <= a.n
             /\ (b.n > 0 => a.n = b.n * Ap("divided_by", a, <<b>>).n + Ap("modulo", a, <<b>>).n
                           /\ Ap("modulo", a, <<b>>).n >= 0 /\ Ap("modulo", a, <<b>>).n < b.n)
             /\ (b.n = 0 => IsErr(Ap("divided_by", a, <<b>>)) /\ IsErr(Ap("modulo", a, <<b>>)))
LawNumericStrings == \A a \in {Str("3"), Str(" 7 "), Str("-2")}, b \in IntsPlain :
             Ap("plus", a, <<b>>) = Ap("plus", IntV(NumLeft(a)), <<b>>)
LawDefault == \A v \in Ints \cup Strs \cup {Nil, Bool(FALSE), Bool(TRUE), Arr(<<>>), Arr(<<Nil>>)} :
             LET d == Ap("default", v, <<Str("D")>>) IN
             d = (IF v.t = "int" THEN v ELSE IF ~Truthy(v) \/ IsEmptyVal(v) THEN Str("D") ELSE v)

LawDecimal == \A a \in Decs \cup IntsPlain, b \in Decs \cup IntsPlain :
             (Floaty(a) \/ Floaty(b)) =>
               /\ NumEq(Ap("minus", Ap("plus", a, <<b>>), <<b>>), a)
               /\ Ap("plus", a, <<b>>) = Ap("plus", b, <<a>>) /\ Ap("times", a, <<b>>) = Ap("times", b, <<a>>)
               /\ Ap("plus", a, <<b>>).t = "dec" /\ Ap("times", a, <<b>>).t = "dec"        \* a float operand gives a float
               /\ (DecOf(b).dm > 0 =>
                     LET m == Ap("modulo", a, <<b>>) IN
                     /\ Ok(m) /\ ~DLt(DecOf(m), Dec(0, 0)) /\ DLt(DecOf(m), DecOf(b))
                     /\ \E q \in -200..200 : DEq(DPlus(DTimes(DecOf(b), Dec(q, 0)), DecOf(m)), DecOf(a)))
\* writing an integer as a float (7 and 7.0) changes the type of the result, never its value
LawRepresentation == \A n \in IntsPlain, b \in Decs \cup IntsPlain :
             LET f == Dec(n.n * 10, 1) IN
             /\ \A op \in {"plus", "minus", "times", "at_least", "at_most"} : NumEq(Ap(op, n, <<b>>), Ap(op, f, <<b>>))
             /\ (DecOf(b).dm > 0 => NumEq(Ap("modulo", n, <<b>>), Ap("modulo", f, <<b>>)))
             /\ \A op \in {"abs", "ceil", "floor", "round"} : NumEq(Ap(op, n, <<>>), Ap(op, f, <<>>))
LawDecArrays == \A a \in DecArrs :
             LET s == Ap("sort", a, <<>>)
                 n == Ap("sort_numeric", a, <<>>)
                 t == Ap("sum", a, <<>>) IN
             /\ Ok(s) /\ SameBag(s.v, a.v) /\ \A i \in 1..(Len(s.v) - 1) : ~DLt(AsDec(s.v[i + 1]), AsDec(s.v[i]))
             /\ Ok(n) /\ SameBag(n.v, a.v) /\ \A i \in 1..(Len(n.v) - 1) : ~DLt(AsDec(n.v[i + 1]), AsDec(n.v[i]))
             /\ Ok(t) /\ DEq(DecOf(t), SumDec(a.v)) /\ (t.t = "dec") = (\E i \in DOMAIN a.v : a.v[i].t = "dec")
             /\ DEq(DecOf(Ap("sum", Ap("reverse", a, <<>>), <<>>)), DecOf(t))            \* the order of the summands does not matter
\* exact integer arithmetic beyond 2^53 and beyond 28 digits
LawBigInts == \A b \in Bigs, n \in {IntV(0), IntV(1), IntV(6)} :
             LET p == Ap("plus", b, <<n>>) IN
             Ok(p) => /\ p.t = "big" /\ Len(p.d) = Len(b.d)
                      /\ Ap("minus", p, <<n>>) = b
                      /\ Ap("times", b, <<IntV(10)>>).d = b.d \o "0"
LawRounding == \A a \in Decs :
             LET fl == Ap("floor", a, <<>>)
                 ce == Ap("ceil", a, <<>>)
                 ro == Ap("round", a, <<>>) IN
             /\ fl.t = "int" /\ ce.t = "int"
             /\ ~DLt(a, Dec(fl.n, 0)) /\ DLt(a, Dec(fl.n + 1, 0))
             /\ ~DLt(Dec(ce.n, 0), a) /\ DLt(Dec(ce.n - 1, 0), a)
             /\ (Ok(ro) => ro.t = "int" /\ ro.n \in {fl.n, ce.n}
                           /\ DLt(DMinus(a, Dec(ro.n, 0)), Dec(5, 1)) /\ DLt(DMinus(Dec(ro.n, 0), a), Dec(5, 1)))
             /\ \A k \in {1, 2} : LET r == Ap("round", a, <<IntV(k)>>) IN
                   Ok(r) => r.t = "dec" /\ NormDec(r).de <= k /\ ~DLt(Dec(5, k + 1), DMinus(a, r)) /\ ~DLt(Dec(5, k + 1), DMinus(r, a))

Laws == /\ LawBigInts /\ LawDecArrays /\ LawDecimal /\ LawRepresentation /\ LawRounding /\ LawSort /\ LawReverse /\ LawUniq /\ LawCompact /\ LawConcat /\ LawFlatten /\ LawPartition /\ LawFind
        /\ LawKeyLambda /\ LawMap /\ LawSplitJoin /\ LawStrip /\ LawAppend /\ LawTruncate /\ LawArith
        /\ LawNumericStrings /\ LawDefault /\ LawConcatNested /\ LawUniqDeep /\ LawSlice /\ LawReplaceLast /\ LawTruncateWords
        /\ LawSortNatural /\ LawSortNumeric /\ LawUrl /\ LawEscapeOnce

\* ---- single applications, for conformance ------------------------------------------
A0(names, lefts) == {[n |-> f, l |-> l, args |-> <<>>, lam |-> FALSE] : f \in names, l \in lefts}
A1(names, lefts, as) == {[n |-> f, l |-> l, args |-> <<a>>, lam |-> FALSE] : f \in names, l \in lefts, a \in as}
A2(names, lefts, as, bs) == {[n |-> f, l |-> l, args |-> <<a, b>>, lam |-> FALSE] : f \in names, l \in lefts, a \in as, b \in bs}
AnyLeft == Ints \cup Strs \cup {Nil, Bool(TRUE), Arr(<<IntV(2), IntV(3)>>), Arr(<<Str("b"), Str("a")>>), Arr(<<>>), Range(1, 3)}
Apps ==
  A0({"upcase", "downcase", "capitalize", "strip", "lstrip", "rstrip", "size", "first", "last", "escape", "abs",
      "reverse", "compact", "uniq", "sort", "sum", "strip_newlines", "newline_to_br", "join", "default"}, AnyLeft)
  \cup A0({"sort", "uniq", "reverse", "compact", "sum", "first", "last", "size", "join"}, IntArrs \cup StrArrs \cup NilArrs \cup Nested)
  \cup A1({"append", "prepend", "remove", "remove_first", "split", "join", "default", "replace", "replace_first"}, Strs \cup {IntV(3), Nil}, Strs \cup {IntV(3), Nil})
  \cup A1({"plus", "minus", "times", "divided_by", "modulo", "at_least", "at_most"}, Ints \cup {Str("3"), Str(" 7 "), Str("x"), Nil}, Ints \cup {Str("2"), Str("y"), Nil})
  \cup A1({"join", "concat"}, IntArrs \cup StrArrs, {Str(","), Arr(<<IntV(9)>>), Arr(<<>>), IntV(1), Nil})
  \cup A2({"replace", "replace_first", "truncate"}, Strs, {Str("a"), Str(" "), IntV(2), IntV(0), IntV(10)}, {Str("Z"), Str(""), Str("..")})
  \cup A1({"concat"}, IntArrs, NestedArgs) \cup A0({"uniq", "compact", "reverse", "size"}, PermArrs)
  \cup A1({"slice"}, Sliceable, SliceStarts) \cup A2({"slice"}, Sliceable, SliceStarts, SliceLens)
  \cup A2({"replace_last"}, Strs \cup WordStrs, {Str("a"), Str(" "), Str("ab"), Str("b c")}, {Str("Z"), Str("")})
  \cup A1({"remove_last"}, Strs \cup WordStrs, {Str("a"), Str(" "), Str("ab"), Str("b c")})
  \cup A0({"truncatewords"}, WordStrs) \cup A1({"truncatewords"}, WordStrs, {IntV(0), IntV(1), IntV(2), IntV(3), IntV(4)})
  \cup A2({"truncatewords"}, WordStrs, {IntV(1), IntV(2), IntV(3)}, {Str("~"), Str("")})
  \cup A0({"sort_natural", "sort"}, MixStrs) \cup A0({"sort_numeric"}, NumStrs \cup IntArrs)
  \cup A0({"url_encode", "url_decode", "escape_once", "escape"}, Special \cup Strs)
  \cup A1({"plus", "minus", "times", "divided_by", "modulo", "at_least", "at_most"}, Decs \cup IntsPlain \cup NumStrsD, Decs \cup IntsPlain \cup NumStrsD \cup {IntV(0), Dec(0, 1)})
  \cup A0({"sum", "sort", "sort_numeric", "reverse", "first", "last", "uniq", "join"}, DecArrs)
  \cup A1({"plus", "minus", "times"}, Bigs, {IntV(0), IntV(1), IntV(6), IntV(10), IntV(100)})
  \cup A0({"abs", "ceil", "floor", "round"}, Decs \cup NumStrsD \cup Ints) \cup A1({"round"}, Decs \cup Ints, {IntV(0), IntV(1), IntV(2), IntV(-1)})
  \cup A1({"truncate"}, Strs, {IntV(0), IntV(2), IntV(3), IntV(10)})
  \cup A1({"map", "where", "reject", "find", "find_index", "has", "compact", "sort", "uniq", "sum"}, HashArrs, {Str("a"), Str("t")})
  \cup A2({"where", "reject", "find", "find_index", "has"}, HashArrs, {Str("a"), Str("t")}, {IntV(2), IntV(3), Str("u"), Nil, IntV(99)})
  \cup A1({"where", "reject", "find", "find_index", "has"}, ZeroArrs, {Str("a")})

Init == IF Mode = "laws" THEN app = [n |-> "-", l |-> Nil, args |-> <<>>, lam |-> FALSE] ELSE app \in Apps
Next == UNCHANGED app

LawsHold == Mode = "laws" => Laws

\* results the documentation equally allows besides the model's (the library must give one of them)
Alts == IF app.n = "slice" /\ app.args[1].t = "int" /\ app.args[1].n < 0 /\ app.l.t \in {"str", "arr"}
           /\ SizeOf(app.l) + app.args[1].n < 0
        THEN <<IF app.l.t = "str" THEN Str("") ELSE Arr(<<>>)>>      \* a start before the beginning selects nothing
        ELSE <<>>

Export ==
  Mode = "apps" =>
    LET r == Apply(app.n, app.l, app.args, CfgD) IN
    IF IsErr(r) /\ r.cls = "UNSPEC" THEN TRUE
    ELSE Serialize(ToJson([focus |-> Focus, filter |-> app.n, left |-> app.l, args |-> app.args, alts |-> Alts,
                           ok |-> ~IsErr(r), result |-> IF IsErr(r) THEN Nil ELSE r, err |-> IF IsErr(r) THEN r.cls ELSE ""]) \o "\n",
                   IOEnv.OUT_FILE, [format |-> "TXT", charset |-> "UTF-8", openOptions |-> <<"WRITE", "CREATE", "APPEND">>]).exitValue = 0
=============================================================================
