---------------------------- MODULE LiquidFilters -----------------------------
(***************************************************************************)
(* Reference definitions of the built-in filters (docs/filter_reference.md)*)
(* as constant operators:  Apply(name, left, args, cfg)  gives a value or  *)
(* Err(class).  Filters whose arguments are lambdas are in LiquidSem,      *)
(* because they evaluate expressions.                                      *)
(*                                                                         *)
(* `safe` (Markup) propagation under auto-escape follows the documented    *)
(* rule: the result of a filter is trusted only if it was built from       *)
(* trusted text or was escaped by the filter itself.                       *)
(***************************************************************************)
EXTENDS LiquidValues

\* ---- argument coercion (liquid2/filter.py) --------------------------------
\* num_arg: ints stay, integer strings convert, everything else -> default 0
\* (floats are outside this model: see UNSPECIFIED.md)
IsIntStr(s) == \/ IsDigits(s)
               \/ (Len(s) > 1 /\ Ch(s, 1) \in {"-", "+"} /\ IsDigits(SubSeq(s, 2, Len(s))))
IntOfStr(s) == IF Ch(s, 1) = "-" THEN -DigitsVal(SubSeq(s, 2, Len(s)))
               ELSE IF Ch(s, 1) = "+" THEN DigitsVal(SubSeq(s, 2, Len(s)))
               ELSE DigitsVal(s)

\* value of the left operand of a math filter (math_filter: default 0)
NumLeft(v) == CASE v.t = "int" -> v.n
                [] v.t = "str" /\ IsIntStr(Strip(v.v)) -> IntOfStr(Strip(v.v))
                [] OTHER -> 0
NumArg(v)  == NumLeft(v)

Arg(args, i, dflt) == IF Len(args) >= i THEN args[i] ELSE dflt

IsDecStr(s) == LET t == IF s # "" /\ Ch(s, 1) \in {"-", "+"} THEN SubSeq(s, 2, Len(s)) ELSE s
                   i == Find(t, ".") IN
               i > 1 /\ i < Len(t) /\ IsDigits(SubSeq(t, 1, i - 1)) /\ IsDigits(SubSeq(t, i + 1, Len(t)))
DecOfStr(s) == LET neg == Ch(s, 1) = "-"
                   t == IF Ch(s, 1) \in {"-", "+"} THEN SubSeq(s, 2, Len(s)) ELSE s
                   i == Find(t, ".")
                   m == DigitsVal(SubSeq(t, 1, i - 1) \o SubSeq(t, i + 1, Len(t))) IN
               Dec(IF neg THEN -m ELSE m, Len(t) - i)
Floaty(v) == v.t = "dec" \/ (v.t = "str" /\ IsDecStr(Strip(v.v)))
DecOf(v) == CASE v.t = "dec" -> v
              [] v.t = "int" -> Dec(v.n, 0)
              [] v.t = "str" /\ IsIntStr(Strip(v.v)) -> Dec(IntOfStr(Strip(v.v)), 0)
              [] v.t = "str" /\ IsDecStr(Strip(v.v)) -> DecOfStr(Strip(v.v))
              [] OTHER -> Dec(0, 0)


\* ---- sequence coercion of the left operand (sequence_filter) --------------
RECURSIVE Flatten(_, _)
Flatten(s, level) ==
  IF s = <<>> THEN <<>>
  ELSE IF s[1].t = "arr" /\ level > 0 THEN Flatten(s[1].v, level - 1) \o Flatten(Tail(s), level)
  ELSE <<s[1]>> \o Flatten(Tail(s), level)

SeqOf(v) ==
  CASE v.t = "arr"   -> Flatten(v.v, 5)
    [] v.t = "range" -> RangeSeq(v)
    [] v.t = "undef" -> <<>>
    [] v.t = "str"   -> [i \in 1..Len(v.v) |-> Str(Ch(v.v, i))]
    [] OTHER         -> <<v>>

\* ---- helpers ---------------------------------------------------------------
RECURSIVE ReplaceAll(_, _, _)
ReplaceAll(s, old, new) ==
  IF old = "" THEN
      \* Python str.replace with an empty pattern inserts between every character
      IF s = "" THEN new ELSE new \o Ch(s, 1) \o ReplaceAll(SubSeq(s, 2, Len(s)), old, new)
  ELSE LET i == Find(s, old) IN
       IF i = 0 THEN s
       ELSE SubSeq(s, 1, i - 1) \o new \o ReplaceAll(SubSeq(s, i + Len(old), Len(s)), old, new)

ReplaceFirst(s, old, new) ==
  LET i == Find(s, old) IN
  IF old = "" THEN new \o s
  ELSE IF i = 0 THEN s ELSE SubSeq(s, 1, i - 1) \o new \o SubSeq(s, i + Len(old), Len(s))

RECURSIVE SplitStr(_, _)
SplitStr(s, sep) ==
  LET i == Find(s, sep) IN
  IF i = 0 THEN <<s>> ELSE <<SubSeq(s, 1, i - 1)>> \o SplitStr(SubSeq(s, i + Len(sep), Len(s)), sep)

Capitalize(s) == IF s = "" THEN "" ELSE UpCh(Ch(s, 1)) \o DownCase(SubSeq(s, 2, Len(s)))

RECURSIVE SumInts(_)
SumInts(s) == IF s = <<>> THEN 0 ELSE NumLeft(s[1]) + SumInts(Tail(s))

\* insertion sort by a strict order Lt(_, _) (stable)
RECURSIVE InsertSorted(_, _, _)
InsertSorted(Lt(_, _), x, s) ==
  IF s = <<>> THEN <<x>>
  ELSE IF Lt(x, s[1]) THEN <<x>> \o s
  ELSE <<s[1]>> \o InsertSorted(Lt, x, Tail(s))
RECURSIVE SortBy(_, _)
SortBy(Lt(_, _), s) ==
  IF s = <<>> THEN <<>> ELSE InsertSorted(Lt, s[Len(s)], SortBy(Lt, SubSeq(s, 1, Len(s) - 1)))
\* NB: builds from the right so that equal elements keep their order

RECURSIVE UniqSeq(_, _)
UniqSeq(s, seen) ==
  IF s = <<>> THEN <<>>
  ELSE IF \E j \in DOMAIN seen : LEq(seen[j], s[1]) THEN UniqSeq(Tail(s), seen)
  ELSE <<s[1]>> \o UniqSeq(Tail(s), Append(seen, s[1]))

Truncate(s, n, end) ==
  IF Len(s) <= n THEN s
  ELSE IF n <= Len(end) THEN end
  ELSE SubSeq(s, 1, n - Len(end)) \o end

MinOf(a, b) == IF a <= b THEN a ELSE b
StartsWith(s, p) == Len(s) >= Len(p) /\ SubSeq(s, 1, Len(p)) = p
At(s, i, p) == i >= 1 /\ i + Len(p) - 1 <= Len(s) /\ SubSeq(s, i, i + Len(p) - 1) = p
\* last occurrence of sub in s (0 if none)
RECURSIVE FindLastFrom(_, _, _)
FindLastFrom(s, sub, from) ==
  IF from < 1 THEN 0 ELSE IF SubSeq(s, from, from + Len(sub) - 1) = sub THEN from ELSE FindLastFrom(s, sub, from - 1)
FindLast(s, sub) == FindLastFrom(s, sub, Len(s) - Len(sub) + 1)
ReplaceLast(s, old, new) ==
  LET i == FindLast(s, old) IN
  IF i = 0 THEN s ELSE SubSeq(s, 1, i - 1) \o new \o SubSeq(s, i + Len(old), Len(s))

\* words: maximal runs of non-whitespace
RECURSIVE Words(_, _)
Words(s, cur) ==
  IF s = "" THEN (IF cur = "" THEN <<>> ELSE <<cur>>)
  ELSE IF Ch(s, 1) \in WsSet THEN (IF cur = "" THEN <<>> ELSE <<cur>>) \o Words(SubSeq(s, 2, Len(s)), "")
  ELSE Words(SubSeq(s, 2, Len(s)), cur \o Ch(s, 1))
\* single spaces between words, none around: the only shape whose "unchanged" is beyond doubt
Canonical(s) == JoinStr(Words(s, ""), " ") = s

\* percent-encoding (urllib.parse.quote_plus / unquote_plus) over printable ASCII
Hex == "0123456789ABCDEF"
UrlSafe == "ABCDEFGHIJKLMNOPQRSTUVWXYZabcdefghijklmnopqrstuvwxyz0123456789_.-~"
Code(c) == Rank(c) + 31
UrlEncCh(c) == IF Find(UrlSafe, c) > 0 THEN c ELSE IF c = " " THEN "+"
               ELSE "%" \o Ch(Hex, (Code(c) \div 16) + 1) \o Ch(Hex, (Code(c) % 16) + 1)
AsciiOnly(s) == \A i \in 1..Len(s) : Rank(Ch(s, i)) > 0
UrlEncode(s) == MapCh(UrlEncCh, s)
HexVal(c) == LET i == Find(Hex, UpCh(c)) IN i - 1           \* -1 if not a hex digit
RECURSIVE UrlDecode(_)
UrlDecode(s) ==
  IF s = "" THEN ""
  ELSE IF Ch(s, 1) = "+" THEN " " \o UrlDecode(SubSeq(s, 2, Len(s)))
  ELSE IF Ch(s, 1) = "%" /\ Len(s) >= 3 /\ HexVal(Ch(s, 2)) >= 0 /\ HexVal(Ch(s, 3)) >= 0
       THEN LET code == HexVal(Ch(s, 2)) * 16 + HexVal(Ch(s, 3)) IN
            (IF code >= 32 /\ code <= 126 THEN Ch(Printable, code - 31) ELSE "?") \o UrlDecode(SubSeq(s, 4, Len(s)))
  ELSE Ch(s, 1) \o UrlDecode(SubSeq(s, 2, Len(s)))
\* a percent sequence outside printable ASCII, or a malformed one, is outside this model
RECURSIVE UrlDecodable(_)
UrlDecodable(s) ==
  IF s = "" THEN TRUE
  ELSE IF Ch(s, 1) = "%" THEN /\ Len(s) >= 3 /\ HexVal(Ch(s, 2)) >= 0 /\ HexVal(Ch(s, 3)) >= 0
                              /\ HexVal(Ch(s, 2)) * 16 + HexVal(Ch(s, 3)) \in 32..126
                              /\ UrlDecodable(SubSeq(s, 4, Len(s)))
  ELSE UrlDecodable(SubSeq(s, 2, Len(s)))

\* html.unescape restricted to the entities escape writes (anything else with "&" is outside the model)
Entities == << <<"&amp;", "&">>, <<"&lt;", "<">>, <<"&gt;", ">">>, <<"&#39;", "'">>, <<"&#34;", "\"">>, <<"&quot;", "\"">>, <<"&#x27;", "'">> >>
RECURSIVE Unescape(_)
Unescape(s) ==
  IF s = "" THEN ""
  ELSE IF \E i \in DOMAIN Entities : StartsWith(s, Entities[i][1])
       THEN LET i == CHOOSE i \in DOMAIN Entities : StartsWith(s, Entities[i][1]) IN
            Entities[i][2] \o Unescape(SubSeq(s, Len(Entities[i][1]) + 1, Len(s)))
  ELSE Ch(s, 1) \o Unescape(SubSeq(s, 2, Len(s)))
RECURSIVE OnlyKnownEntities(_)
OnlyKnownEntities(s) ==
  IF s = "" THEN TRUE
  ELSE IF Ch(s, 1) # "&" THEN OnlyKnownEntities(SubSeq(s, 2, Len(s)))
  ELSE IF \E i \in DOMAIN Entities : StartsWith(s, Entities[i][1])
       THEN LET i == CHOOSE i \in DOMAIN Entities : StartsWith(s, Entities[i][1]) IN
            OnlyKnownEntities(SubSeq(s, Len(Entities[i][1]) + 1, Len(s)))
  \* a bare & that cannot start an entity (followed by a space, or last)
  ELSE (Len(s) = 1 \/ Ch(s, 2) \in {" ", "&", "<"}) /\ OnlyKnownEntities(SubSeq(s, 2, Len(s)))

\* result keeps `safe` only if every contributing text is safe
MkText(s, safe) == [t |-> "str", v |-> s, safe |-> safe]
IsSafe(v) == v.t = "str" /\ v.safe
\* the text an argument contributes to a Markup result (escaped unless safe)
EscArg(v, cfg) == IF cfg.autoescape /\ ~IsSafe(v) THEN Escape(ToStr(v)) ELSE ToStr(v)
\* a value as the text a string filter works on (filter.py: string_filter - Markup is kept)
AsText(v) == IF v.t = "str" THEN v ELSE Str(ToStr(v))
\* markupsafe's algebra: concatenating with a Markup value gives Markup, the other side escaped
TextCat(a, b, ae) ==
  IF ae /\ (a.safe \/ b.safe)
  THEN MkText((IF a.safe THEN a.v ELSE Escape(a.v)) \o (IF b.safe THEN b.v ELSE Escape(b.v)), TRUE)
  ELSE Str(a.v \o b.v)

\* values whose equality is beyond doubt (no 0/1 against booleans), compared deeply
RECURSIVE PlainEq(_)
PlainEq(v) == \/ v.t \in {"str", "nil"} \/ (v.t = "int" /\ v.n \notin {0, 1})
              \/ (v.t = "arr" /\ \A i \in DOMAIN v.v : PlainEq(v.v[i]))
              \/ (v.t = "hash" /\ \A i \in DOMAIN v.h : PlainEq(v.h[i][2]))
AllScalars(s) == \A i \in DOMAIN s : s[i].t \in {"str", "int", "dec"}
Homogeneous(s) == (\A i \in DOMAIN s : s[i].t = "str") \/ (\A i \in DOMAIN s : s[i].t \in {"int", "dec"})
ValLt(a, b) == IF a.t = "str" THEN StrLt(a.v, b.v) ELSE IF a.t = "int" /\ b.t = "int" THEN a.n < b.n ELSE DLt(AsDec(a), AsDec(b))
\* the sum of numbers: exact; a float among them makes the result a float
RECURSIVE SumDec(_)
SumDec(s) == IF s = <<>> THEN Dec(0, 0) ELSE DPlus(IF s[1].t = "nil" THEN Dec(0, 0) ELSE AsDec(s[1]), SumDec(Tail(s)))
SumOf(s) == IF \E i \in DOMAIN s : s[i].t = "dec" THEN NormDec(SumDec(s)) ELSE IntV(SumInts(s))

\* ---- array filters keyed by a property name ----------------------------------
\* (filter_reference.md: where / reject / find / find_index / has / map / uniq /
\* compact / sum / sort with a string key).  Items must be hashes; comparing with
\* Python == across bool/int is UNSPECIFIED.
AllHashes(s) == \A i \in DOMAIN s : s[i].t = "hash"
Prop(h, k) == IF HHas(h.h, k) THEN HGet(h.h, k) ELSE Nil
\* (without a value to compare with, the filters test the property for truth - 0 is as true as any number)
Murky(seq, k, val) ==
  \/ \E i \in DOMAIN seq : Prop(seq[i], k).t \notin {"nil", "bool", "int", "str"}
  \/ (val.t \notin {"nil", "undef"} /\ \E i \in DOMAIN seq : Prop(seq[i], k) = IntV(0) \/ Prop(seq[i], k) = IntV(1))
  \/ val.t \notin {"nil", "undef", "int", "str", "bool"}
KeyMatch(h, k, val) ==
  IF val.t \in {"nil", "undef"} THEN Truthy(Prop(h, k)) ELSE LEq(Prop(h, k), val)
RECURSIVE FirstIndex(_, _, _, _)
FirstIndex(seq, k, val, i) ==
  IF i > Len(seq) THEN 0 ELSE IF KeyMatch(seq[i], k, val) THEN i ELSE FirstIndex(seq, k, val, i + 1)

\* keep the first item for every distinct key value
RECURSIVE UniqBy(_, _, _, _)
UniqBy(seq, keys, i, seen) ==
  IF i > Len(seq) THEN <<>>
  ELSE IF \E j \in DOMAIN seen : LEq(seen[j], keys[i]) /\ seen[j].t = keys[i].t THEN UniqBy(seq, keys, i + 1, seen)
  ELSE <<seq[i]>> \o UniqBy(seq, keys, i + 1, Append(seen, keys[i]))

\* stable sort of items by keys (all ints or all strings)
RECURSIVE InsertKeyed(_, _), SortKeyed(_)
InsertKeyed(x, s) ==
  IF s = <<>> THEN <<x>>
  ELSE IF ValLt(x[2], s[1][2]) THEN <<x>> \o s
  ELSE <<s[1]>> \o InsertKeyed(x, Tail(s))
SortKeyed(pairs) ==
  IF pairs = <<>> THEN <<>> ELSE InsertKeyed(pairs[Len(pairs)], SortKeyed(SubSeq(pairs, 1, Len(pairs) - 1)))
SortByKeys(seq, keys) ==
  LET sorted == SortKeyed([i \in DOMAIN seq |-> <<seq[i], keys[i]>>]) IN [i \in DOMAIN sorted |-> sorted[i][1]]

\* the same with any strict order on the keys (stable)
RECURSIVE InsertKeyedLt(_, _, _), SortKeyedLt(_, _)
InsertKeyedLt(Lt(_, _), x, s) ==
  IF s = <<>> THEN <<x>>
  ELSE IF Lt(x[2], s[1][2]) THEN <<x>> \o s
  ELSE <<s[1]>> \o InsertKeyedLt(Lt, x, Tail(s))
SortKeyedLt(Lt(_, _), pairs) ==
  IF pairs = <<>> THEN <<>> ELSE InsertKeyedLt(Lt, pairs[Len(pairs)], SortKeyedLt(Lt, SubSeq(pairs, 1, Len(pairs) - 1)))
SortByKeysLt(Lt(_, _), seq, keys) ==
  LET sorted == SortKeyedLt(Lt, [i \in DOMAIN seq |-> <<seq[i], keys[i]>>]) IN [i \in DOMAIN sorted |-> sorted[i][1]]
\* sort_numeric / sort_natural by a key: numbers (resp. strings without regard to case) in order, items
\* without the key - or with nil - after all others, ties in their original order
NumKeyLt(a, b) == a.t = "int" /\ (b.t # "int" \/ a.n < b.n)
NatKeyLt(a, b) == a.t = "str" /\ (b.t # "str" \/ StrLt(DownCase(a.v), DownCase(b.v)))
NumKeysOK(keys) == \A i \in DOMAIN keys : keys[i].t \in {"int", "nil", "undef"}
NatKeysOK(keys) == \A i \in DOMAIN keys : keys[i].t \in {"str", "undef"}

Known == {"slice", "replace_last", "remove_last", "truncatewords", "sort_natural", "sort_numeric", "escape_once", "url_encode", "url_decode", "reject", "find", "find_index", "has", "append", "prepend", "upcase", "downcase", "capitalize", "strip", "lstrip", "rstrip",
          "size", "escape", "replace", "replace_first", "remove", "remove_first", "split",
          "first", "last", "join", "default", "truncate", "reverse", "concat", "compact",
          "uniq", "sort", "map", "where", "sum", "plus", "minus", "times", "divided_by",
          "modulo", "abs", "at_least", "at_most", "strip_newlines", "newline_to_br", "safe", "round", "ceil", "floor"}

\* Apply a filter.  `args` are evaluated positional arguments; cfg carries autoescape.
MathFilters == {"plus", "minus", "times", "divided_by", "modulo", "abs", "at_least", "at_most", "round", "ceil", "floor"}

\* integers beyond TLC's own: a decimal digit string; the cases that need no carry are enough to
\* tell exact integer arithmetic from arithmetic that went through a float or a 28-digit decimal
LastDigit(d) == DigitsVal(SubSeq(d, Len(d), Len(d)))
BigApply(name, left, args) ==
  LET d == left.d
      a1 == Arg(args, 1, [t |-> "undef"]) IN
  IF Len(args) # 1 THEN Err("LiquidTypeError")
  ELSE IF a1.t # "int" \/ Ch(d, 1) = "-" THEN Err("UNSPEC")
  ELSE CASE name = "plus" /\ a1.n >= 0 /\ a1.n <= 9 /\ LastDigit(d) + a1.n <= 9 ->
              BigInt(SubSeq(d, 1, Len(d) - 1) \o ToString(LastDigit(d) + a1.n))
         [] name = "minus" /\ a1.n >= 0 /\ a1.n <= LastDigit(d) ->
              BigInt(SubSeq(d, 1, Len(d) - 1) \o ToString(LastDigit(d) - a1.n))
         [] name = "times" /\ a1.n \in {1, 10, 100} ->
              BigInt(d \o (IF a1.n = 1 THEN "" ELSE IF a1.n = 10 THEN "0" ELSE "00"))
         [] OTHER -> Err("UNSPEC")

\* the arithmetic filters when an operand is a float (or a string that reads as one)
DecApply(name, left, args) ==
  LET a == DecOf(left)
      a1 == Arg(args, 1, [t |-> "undef"])
      b == DecOf(a1)
  IN
  CASE name = "plus"  -> IF Len(args) # 1 THEN Err("LiquidTypeError") ELSE DPlus(a, b)
    [] name = "minus" -> IF Len(args) # 1 THEN Err("LiquidTypeError") ELSE DMinus(a, b)
    [] name = "times" -> IF Len(args) # 1 THEN Err("LiquidTypeError") ELSE DTimes(a, b)
    [] name = "divided_by" ->
         IF Len(args) # 1 THEN Err("LiquidTypeError")
         ELSE IF DIsZero(b) THEN Err("LiquidTypeError")
         \* filter_reference.md: "If you divide by a float, the result will be a float"; a float divided
         \* by an integer is not fixed by the documentation
         ELSE IF ~Floaty(a1) THEN Err("UNSPEC")
         ELSE IF ~DQuotExact(a, b) THEN Err("UNSPEC") ELSE DQuot(a, b)
    [] name = "modulo" ->
         IF Len(args) # 1 THEN Err("LiquidTypeError")
         ELSE IF DIsZero(b) THEN Err("LiquidTypeError")
         ELSE IF b.dm < 0 THEN Err("UNSPEC") ELSE DMod(a, b)
    [] name = "abs" -> IF Len(args) # 0 THEN Err("LiquidTypeError") ELSE NormDec(Dec(IF a.dm < 0 THEN -a.dm ELSE a.dm, a.de))
    \* min / max hand back one of their operands as it is (an integer stays an integer)
    [] name = "at_least" -> IF Len(args) # 1 THEN Err("LiquidTypeError")
                            ELSE IF DLt(a, b) THEN (IF Floaty(a1) THEN NormDec(b) ELSE IntV(b.dm)) ELSE (IF Floaty(left) THEN NormDec(a) ELSE IntV(a.dm))
    [] name = "at_most"  -> IF Len(args) # 1 THEN Err("LiquidTypeError")
                            ELSE IF DLt(b, a) THEN (IF Floaty(a1) THEN NormDec(b) ELSE IntV(b.dm)) ELSE (IF Floaty(left) THEN NormDec(a) ELSE IntV(a.dm))
    [] name = "ceil"  -> IF Len(args) # 0 THEN Err("LiquidTypeError") ELSE IntV(DCeil(a))
    [] name = "floor" -> IF Len(args) # 0 THEN Err("LiquidTypeError") ELSE IntV(DFloor(a))
    [] name = "round" ->
         IF Len(args) > 1 THEN Err("LiquidTypeError")
         ELSE LET k == IF Len(args) = 0 THEN 0 ELSE (IF a1.t = "int" THEN a1.n ELSE -99) IN
              IF k = -99 THEN Err("UNSPEC")
              ELSE IF k < 0 THEN IntV(0)
              ELSE IF ~DRoundable(a, k) THEN Err("UNSPEC")            \* a tie: the documentation names no rule
              ELSE IF k = 0 THEN IntV(DRound(a, 0).dm) ELSE DRound(a, k)
    [] OTHER -> Err("UNSPEC")
Apply(name, left, args, cfg) ==
  \* booleans as numbers (Python's True == 1) are UNSPECIFIED
  IF name \in MathFilters /\ (left.t = "bool" \/ \E i \in DOMAIN args : args[i].t = "bool") THEN Err("UNSPEC") ELSE
  IF name \in {"plus", "minus", "times"} /\ left.t = "big" THEN BigApply(name, left, args) ELSE
  IF name \in MathFilters /\ (Floaty(left) \/ (name # "round" /\ \E i \in DOMAIN args : Floaty(args[i]))) THEN DecApply(name, left, args) ELSE
  LET ae == cfg.autoescape
      ls == ToStr(left)
      lsafe == ae /\ IsSafe(left)
      a1 == Arg(args, 1, Undef)
      a2 == Arg(args, 2, Undef)
      seq == SeqOf(left)
  IN
  CASE name = "append"  -> IF Len(args) # 1 THEN Err("LiquidTypeError") ELSE TextCat(AsText(left), AsText(a1), ae)
    [] name = "prepend" -> IF Len(args) # 1 THEN Err("LiquidTypeError") ELSE TextCat(AsText(a1), AsText(left), ae)
    [] name = "upcase"     -> IF Len(args) # 0 THEN Err("LiquidTypeError") ELSE MkText(UpCase(ls), lsafe)
    [] name = "downcase"   -> IF Len(args) # 0 THEN Err("LiquidTypeError") ELSE MkText(DownCase(ls), lsafe)
    [] name = "capitalize" -> IF Len(args) # 0 THEN Err("LiquidTypeError") ELSE MkText(Capitalize(ls), lsafe)
    [] name = "strip"      -> IF Len(args) # 0 THEN Err("LiquidTypeError") ELSE MkText(Strip(ls), lsafe)
    [] name = "lstrip"     -> IF Len(args) # 0 THEN Err("LiquidTypeError") ELSE MkText(LStrip(ls), lsafe)
    [] name = "rstrip"     -> IF Len(args) # 0 THEN Err("LiquidTypeError") ELSE MkText(RStrip(ls), lsafe)
    [] name = "escape"     -> IF Len(args) # 0 THEN Err("LiquidTypeError") ELSE MkText(IF ae THEN Escape(ls) ELSE EscapeHtml(ls), ae)
    [] name = "safe"       -> IF Len(args) # 0 THEN Err("LiquidTypeError") ELSE MkText(ls, ae)
    [] name = "size" ->
         IF Len(args) # 0 THEN Err("LiquidTypeError")
         ELSE (CASE left.t = "str" -> IntV(Len(left.v))
                [] left.t = "arr" -> IntV(Len(left.v))
                [] left.t = "hash" -> IntV(Len(left.h))
                [] left.t = "range" -> IntV(RangeLen(left))
                [] OTHER -> IntV(0))
    [] name \in {"replace", "replace_first"} ->
         IF Len(args) \notin {1, 2} THEN Err("LiquidTypeError")
         \* Markup.replace escapes the replacement (unless Markup) and stays Markup
         ELSE LET old == ToStr(a1)
                  new == IF Len(args) = 2 THEN (IF lsafe THEN EscArg(a2, cfg) ELSE ToStr(a2)) ELSE ""
                  r == IF name = "replace" THEN ReplaceAll(ls, old, new) ELSE ReplaceFirst(ls, old, new)
              IN MkText(r, lsafe)
    [] name \in {"remove", "remove_first"} ->
         IF Len(args) # 1 THEN Err("LiquidTypeError")
         ELSE LET old == ToStr(a1) IN
              MkText(IF name = "remove" THEN ReplaceAll(ls, old, "") ELSE ReplaceFirst(ls, old, ""), lsafe)
    [] name = "split" ->
         IF Len(args) # 1 THEN Err("LiquidTypeError")
         ELSE LET sep == ToStr(a1) IN
              IF ~Truthy(a1) \/ sep = "" THEN Arr([i \in 1..Len(ls) |-> Str(Ch(ls, i))])
              ELSE IF ls = "" \/ ls = sep THEN Arr(<<>>)
              \* Markup.split: the pieces stay Markup, the separator is taken as it is
              ELSE LET parts == SplitStr(ls, sep) IN Arr([i \in DOMAIN parts |-> MkText(parts[i], lsafe)])
    [] name = "first" ->
         IF Len(args) # 0 THEN Err("LiquidTypeError")
         ELSE (CASE left.t = "arr" -> IF left.v = <<>> THEN Nil ELSE left.v[1]
                [] left.t = "range" -> IF RangeLen(left) = 0 THEN Nil ELSE IntV(left.a)
                [] left.t = "hash" -> IF left.h = <<>> THEN Nil ELSE Arr(<<Str(left.h[1][1]), left.h[1][2]>>)
                [] OTHER -> Nil)
    [] name = "last" ->
         IF Len(args) # 0 THEN Err("LiquidTypeError")
         ELSE (CASE left.t = "arr" -> IF left.v = <<>> THEN Nil ELSE left.v[Len(left.v)]
                [] left.t = "range" -> IF RangeLen(left) = 0 THEN Nil ELSE IntV(left.b)
                [] OTHER -> Nil)
    [] name = "join" ->
         IF Len(args) > 1 THEN Err("LiquidTypeError")
         ELSE IF \E i \in DOMAIN seq : Unprintable(seq[i]) THEN Err("UNSPEC")
         ELSE LET sepv == IF Len(args) = 1 THEN a1 ELSE Str(" ")
              IN IF ae /\ (Len(args) = 0 \/ IsSafe(sepv))
                 THEN \* a Markup separator (a literal, the default): Markup.join escapes every piece unless safe
                      MkText(JoinStr([i \in DOMAIN seq |-> EscArg(seq[i], cfg)], ToStr(sepv)), TRUE)
                 ELSE \* a plain separator: str.join, a plain string (escaped as a whole on output)
                      Str(JoinStr([i \in DOMAIN seq |-> ToStr(seq[i])], ToStr(sepv)))
    [] name = "default" ->
         IF Len(args) > 1 THEN Err("LiquidTypeError")
         ELSE LET d == IF Len(args) = 1 THEN a1 ELSE Str("") IN
              IF left.t = "int" THEN left
              ELSE IF ~Truthy(left) \/ IsEmptyVal(left) THEN d ELSE left
    [] name = "truncate" ->
         IF Len(args) > 2 THEN Err("LiquidTypeError")
         ELSE IF Len(args) >= 1 /\ a1.t \notin {"int"} THEN Err("LiquidTypeError")   \* only ints modelled
         ELSE LET n == IF Len(args) >= 1 THEN a1.n ELSE 50
                  end == IF Len(args) = 2 THEN ToStr(a2) ELSE "..."
              \* short enough: the value itself; otherwise an f-string, which is a plain str even for Markup
              IN IF n < 0 THEN Err("UNSPEC")
                 ELSE IF Len(ls) <= n THEN AsText(left) ELSE Str(Truncate(ls, n, end))
    [] name = "reverse" -> IF Len(args) # 0 THEN Err("LiquidTypeError") ELSE Arr(Reverse(seq))
    [] name = "compact" ->
         IF Len(args) = 0 THEN Arr(SelectSeq(seq, LAMBDA x : x.t \notin {"nil", "undef"}))
         ELSE IF Len(args) # 1 \/ a1.t # "str" \/ ~AllHashes(seq) THEN Err("UNSPEC")
         ELSE IF \E i \in DOMAIN seq : ~HHas(seq[i].h, a1.v) THEN Err("UNSPEC")
         ELSE Arr(SelectSeq(seq, LAMBDA h : Prop(h, a1.v).t # "nil"))
    [] name = "concat" ->
         IF Len(args) # 1 THEN Err("LiquidTypeError")
         ELSE IF a1.t \notin {"arr", "range"} THEN Err("LiquidTypeError")
         ELSE Arr(seq \o (IF a1.t = "arr" THEN a1.v ELSE RangeSeq(a1)))   \* the argument is taken as it is (not flattened)
    [] name = "uniq" ->
         IF Len(args) = 0 THEN (IF \A i \in DOMAIN seq : PlainEq(seq[i]) THEN Arr(UniqSeq(seq, <<>>)) ELSE Err("UNSPEC"))
         ELSE IF Len(args) # 1 \/ a1.t # "str" \/ ~AllHashes(seq) \/ Murky(seq, a1.v, Nil) THEN Err("UNSPEC")
         ELSE IF \E i \in DOMAIN seq : ~HHas(seq[i].h, a1.v) THEN Err("UNSPEC")
         ELSE Arr(UniqBy(seq, [i \in DOMAIN seq |-> Prop(seq[i], a1.v)], 1, <<>>))
    [] name = "sort" ->
         IF Len(args) = 0 THEN (IF ~(AllScalars(seq) /\ Homogeneous(seq)) THEN Err("UNSPEC") ELSE Arr(SortBy(ValLt, seq)))
         ELSE IF Len(args) # 1 \/ a1.t # "str" \/ ~AllHashes(seq) THEN Err("UNSPEC")
         ELSE LET keys == [i \in DOMAIN seq |-> Prop(seq[i], a1.v)] IN
              IF ~(AllScalars(keys) /\ Homogeneous(keys)) THEN Err("UNSPEC") ELSE Arr(SortByKeys(seq, keys))
    [] name = "map" ->
         IF Len(args) # 1 \/ a1.t # "str" THEN Err("UNSPEC")
         ELSE IF \E i \in DOMAIN seq : seq[i].t # "hash" THEN Err("LiquidTypeError")
         ELSE Arr([i \in DOMAIN seq |-> IF HHas(seq[i].h, a1.v) THEN HGet(seq[i].h, a1.v) ELSE Nil])
    [] name = "where" ->
         IF Len(args) \notin {1, 2} THEN Err("LiquidTypeError")
         ELSE IF a1.t # "str" \/ ~AllHashes(seq) \/ Murky(seq, a1.v, a2) THEN Err("UNSPEC")
         ELSE Arr(SelectSeq(seq, LAMBDA h : KeyMatch(h, a1.v, a2)))
    [] name = "sum" ->
         IF Len(args) = 0 THEN (IF \A i \in DOMAIN seq : seq[i].t \in {"int", "nil", "dec"} THEN SumOf(seq) ELSE Err("UNSPEC"))
         ELSE IF Len(args) # 1 \/ a1.t # "str" \/ ~AllHashes(seq) THEN Err("UNSPEC")
         ELSE IF \E i \in DOMAIN seq : Prop(seq[i], a1.v).t \notin {"int", "nil", "dec"} THEN Err("UNSPEC")
         ELSE SumOf([i \in DOMAIN seq |-> Prop(seq[i], a1.v)])
    [] name \in {"reject", "find", "find_index", "has"} ->
         IF Len(args) \notin {1, 2} THEN Err("LiquidTypeError")
         ELSE IF a1.t # "str" \/ ~AllHashes(seq) \/ Murky(seq, a1.v, a2) THEN Err("UNSPEC")
         ELSE LET idx == FirstIndex(seq, a1.v, a2, 1) IN
              (CASE name = "reject" -> Arr(SelectSeq(seq, LAMBDA h : ~KeyMatch(h, a1.v, a2)))
                 [] name = "find" -> IF idx = 0 THEN Nil ELSE seq[idx]
                 [] name = "find_index" -> IF idx = 0 THEN Nil ELSE IntV(idx - 1)
                 [] name = "has" -> Bool(idx # 0))
    [] name = "plus"  -> IF Len(args) # 1 THEN Err("LiquidTypeError") ELSE IntV(NumLeft(left) + NumArg(a1))
    [] name = "minus" -> IF Len(args) # 1 THEN Err("LiquidTypeError") ELSE IntV(NumLeft(left) - NumArg(a1))
    [] name = "times" -> IF Len(args) # 1 THEN Err("LiquidTypeError") ELSE IntV(NumLeft(left) * NumArg(a1))
    [] name = "divided_by" ->
         IF Len(args) # 1 THEN Err("LiquidTypeError")
         ELSE IF NumArg(a1) = 0 THEN Err("LiquidTypeError")
         ELSE IntV(NumLeft(left) \div NumArg(a1))       \* floor division, as Python //
    [] name = "modulo" ->
         IF Len(args) # 1 THEN Err("LiquidTypeError")
         ELSE IF NumArg(a1) = 0 THEN Err("LiquidTypeError")
         ELSE IF NumArg(a1) < 0 THEN Err("UNSPEC")
         ELSE IntV(NumLeft(left) % NumArg(a1))
    [] name = "abs" -> IF Len(args) # 0 THEN Err("LiquidTypeError")
                       ELSE IntV(IF NumLeft(left) < 0 THEN -NumLeft(left) ELSE NumLeft(left))
    [] name \in {"ceil", "floor"} -> IF Len(args) # 0 THEN Err("LiquidTypeError") ELSE IntV(NumLeft(left))
    [] name = "round" -> IF Len(args) > 1 THEN Err("LiquidTypeError")
                         ELSE IF Len(args) = 1 /\ a1.t # "int" THEN Err("UNSPEC")
                         ELSE IF Len(args) = 1 /\ a1.n < 0 THEN IntV(0) ELSE IntV(NumLeft(left))
    [] name = "at_least" -> IF Len(args) # 1 THEN Err("LiquidTypeError")
                            ELSE IntV(IF NumLeft(left) < NumArg(a1) THEN NumArg(a1) ELSE NumLeft(left))
    [] name = "at_most"  -> IF Len(args) # 1 THEN Err("LiquidTypeError")
                            ELSE IntV(IF NumLeft(left) > NumArg(a1) THEN NumArg(a1) ELSE NumLeft(left))
    [] name \in {"strip_newlines", "newline_to_br"} ->
         IF Len(args) # 0 THEN Err("LiquidTypeError")
         ELSE LET base == IF ae /\ ~lsafe THEN Escape(ls) ELSE ls
                  sub  == IF name = "newline_to_br" THEN "<br />\n" ELSE ""
              IN MkText(ReplaceAll(ReplaceAll(base, "\r\n", sub), "\n", sub), ae)
    [] name = "slice" ->
         \* filter_reference.md: zero-based start (negative: from the end), length defaults to 1
         IF Len(args) \notin {1, 2} THEN Err("LiquidTypeError")
         ELSE IF a1.t = "undef" THEN Err("LiquidTypeError")                    \* "slice expected an integer, found Undefined"
         ELSE IF a1.t # "int" \/ (Len(args) = 2 /\ a2.t \notin {"int", "undef"}) THEN Err("UNSPEC")
         ELSE IF left.t \notin {"str", "arr"} THEN Err("UNSPEC")
         ELSE LET items == IF left.t = "str" THEN left.v ELSE left.v
                  n == Len(items)
                  len == IF Len(args) = 2 /\ a2.t = "int" THEN a2.n ELSE 1      \* an undefined length counts as the default
                  st == IF a1.n < 0 THEN n + a1.n ELSE a1.n
              \* a start before the beginning: the window [st, st + len) still counts from there (what falls
              \* before the first item is not there); MC_Filters also accepts the empty result for it
              IN LET piece == IF len <= 0 \/ st + len <= 0 THEN SubSeq(items, 1, 0)
                              ELSE SubSeq(items, (IF st < 0 THEN 0 ELSE st) + 1, MinOf(st + len, n)) IN
                      IF left.t = "str" THEN MkText(piece, lsafe) ELSE Arr(piece)
    [] name \in {"replace_last", "remove_last"} ->
         IF (name = "replace_last" /\ Len(args) # 2) \/ (name = "remove_last" /\ Len(args) # 1) THEN Err("LiquidTypeError")
         ELSE IF ToStr(a1) = "" \/ lsafe THEN Err("UNSPEC")
         ELSE Str(ReplaceLast(ls, ToStr(a1), IF name = "replace_last" THEN ToStr(a2) ELSE ""))
    [] name = "truncatewords" ->
         IF Len(args) > 2 THEN Err("LiquidTypeError")
         ELSE IF Len(args) >= 1 /\ a1.t = "undef" THEN Err("LiquidTypeError")
         ELSE IF Len(args) >= 1 /\ a1.t # "int" THEN Err("UNSPEC")
         ELSE LET n0 == IF Len(args) >= 1 THEN a1.n ELSE 15
                  n == IF n0 <= 0 THEN 1 ELSE n0
                  end == IF Len(args) = 2 THEN ToStr(a2) ELSE "..."
                  ws == Words(ls, "")
              IN IF ~Canonical(ls) \/ lsafe THEN Err("UNSPEC")       \* whitespace normalisation: UNSPECIFIED.md
                 ELSE IF Len(ws) <= n THEN Str(ls)
                 ELSE Str(JoinStr(SubSeq(ws, 1, n), " ") \o end)
    [] name \in {"sort_natural", "sort_numeric"} /\ Len(args) = 1 ->
         IF a1.t # "str" \/ ~AllHashes(seq) THEN Err("UNSPEC")
         ELSE LET keys == [i \in DOMAIN seq |-> IF HHas(seq[i].h, a1.v) THEN HGet(seq[i].h, a1.v) ELSE Undef] IN
              IF name = "sort_numeric" THEN (IF NumKeysOK(keys) THEN Arr(SortByKeysLt(NumKeyLt, seq, keys)) ELSE Err("UNSPEC"))
              ELSE (IF NatKeysOK(keys) THEN Arr(SortByKeysLt(NatKeyLt, seq, keys)) ELSE Err("UNSPEC"))
    [] name = "sort_natural" ->
         IF Len(args) # 0 THEN Err("UNSPEC")
         ELSE IF ~(\A i \in DOMAIN seq : seq[i].t = "str") THEN Err("UNSPEC")
         ELSE Arr(SortBy(LAMBDA x, y : StrLt(DownCase(x.v), DownCase(y.v)), seq))
    [] name = "sort_numeric" ->
         IF Len(args) # 0 THEN Err("UNSPEC")
         ELSE IF ~(\A i \in DOMAIN seq : seq[i].t \in {"int", "dec"} \/ (seq[i].t = "str" /\ IsIntStr(seq[i].v))) THEN Err("UNSPEC")
         ELSE Arr(SortBy(LAMBDA x, y : DLt(DecOf(x), DecOf(y)), seq))
    [] name = "escape_once" ->
         IF Len(args) # 0 THEN Err("LiquidTypeError")
         ELSE IF ae \/ ~OnlyKnownEntities(ls) THEN Err("UNSPEC") ELSE Str(EscapeHtml(Unescape(ls)))
    [] name = "url_encode" ->
         IF Len(args) # 0 THEN Err("LiquidTypeError")
         ELSE IF ~AsciiOnly(ls) THEN Err("UNSPEC") ELSE MkText(UrlEncode(ls), ae)
    [] name = "url_decode" ->
         IF Len(args) # 0 THEN Err("LiquidTypeError")
         ELSE IF ~AsciiOnly(ls) \/ ~UrlDecodable(ls) THEN Err("UNSPEC") ELSE Str(UrlDecode(ls))
    [] OTHER -> Err("UnknownFilterError")
=============================================================================
