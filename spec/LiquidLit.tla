------------------------------- MODULE LiquidLit -------------------------------
(***************************************************************************)
(* String and number literals (C20).  Text is a sequence of Unicode code   *)
(* points (numbers: TLC strings are ASCII).                                *)
(*                                                                         *)
(* A string value is spelled unit by unit; every code point has several    *)
(* valid spellings (migration.md "Better string literal parsing": c-like   *)
(* escapes, \uXXXX, surrogate pairs, escaped quotes, \$ against            *)
(* interpolation).  TLC enumerates every unit sequence up to MaxLen under  *)
(* both quote characters and checks on the specification itself that       *)
(*   RoundTrip    decoding the spelling (an independent reading of the     *)
(*                escape grammar) gives back the value,                    *)
(*   Delimited    scanning the body as the lexer does (a backslash takes   *)
(*                the next character with it) meets no closing quote and   *)
(*                no interpolation before the end,                         *)
(* and exports the literal embedded at every site where a string may       *)
(* appear, with the text the render must produce.                          *)
(*                                                                         *)
(* Numbers: a spelling is sign, digits, optional fraction, optional        *)
(* exponent; its value is the exact decimal  digits x 10^scale.            *)
(***************************************************************************)
EXTENDS Integers, Sequences, FiniteSets, TLC, Json, IOUtils

CONSTANTS Mode,      \* "str" | "num" | "json"
          MaxLen, Focus

VARIABLES units, quote
vars == <<units, quote>>

\* ---- ASCII text as code points ---------------------------------------------------
Printable == " !\"#$%&'()*+,-./0123456789:;<=>?@ABCDEFGHIJKLMNOPQRSTUVWXYZ[\\]^_`abcdefghijklmnopqrstuvwxyz{|}~"
RECURSIVE IndexOf(_, _, _)
IndexOf(s, c, i) == IF i > Len(s) THEN 0 ELSE IF SubSeq(s, i, i) = c THEN i ELSE IndexOf(s, c, i + 1)
Cps(str) == [i \in 1..Len(str) |-> IF SubSeq(str, i, i) = "\n" THEN 10 ELSE IndexOf(Printable, SubSeq(str, i, i), 1) + 31]

DQ == 34   SQ == 39   BS == 92   DOLLAR == 36   LBRACE == 123

\* ---- the value alphabet -------------------------------------------------------------
\* (98 b, 110 n, 117 u: letters that are also the names of escapes)
\* (101 + 769: e followed by a combining acute; 8491: ANGSTROM SIGN - text that Unicode normalisation would rewrite)
Alphabet == {8, 9, 10, 12, 13, 31, 32, 34, 36, 39, 47, 92, 123, 125, 37, 97, 98, 101, 110, 117, 127, 233, 769, 8491, 8232, 55295, 57344, 65535, 65536, 128512, 1114111}
Short == (8 :> 98) @@ (12 :> 102) @@ (10 :> 110) @@ (13 :> 114) @@ (9 :> 116) @@ (47 :> 47) @@ (92 :> 92) @@ (36 :> 36)

Forms(cp, q) ==
  (IF cp # BS /\ cp # q THEN {"raw"} ELSE {})
  \cup (IF cp <= 65535 THEN {"u4", "U4"} ELSE {"pair", "PAIR"})
  \cup (IF cp \in DOMAIN Short THEN {"short"} ELSE {})
  \cup (IF cp = q THEN {"q"} ELSE {})

HexDigit(n, upper) == IF n < 10 THEN 48 + n ELSE (IF upper THEN 55 ELSE 87) + n
Hex4(n, upper) == <<HexDigit(n \div 4096, upper), HexDigit((n \div 256) % 16, upper), HexDigit((n \div 16) % 16, upper), HexDigit(n % 16, upper)>>
Esc(n, upper) == <<BS, 117>> \o Hex4(n, upper)

SpellUnit(u, q) ==
  CASE u.form = "raw"   -> <<u.cp>>
    [] u.form = "u4"    -> Esc(u.cp, FALSE)
    [] u.form = "U4"    -> Esc(u.cp, TRUE)
    [] u.form = "pair"  -> Esc(55296 + ((u.cp - 65536) \div 1024), FALSE) \o Esc(56320 + ((u.cp - 65536) % 1024), FALSE)
    [] u.form = "PAIR"  -> Esc(55296 + ((u.cp - 65536) \div 1024), TRUE) \o Esc(56320 + ((u.cp - 65536) % 1024), TRUE)
    [] u.form = "short" -> <<BS, Short[u.cp]>>
    [] u.form = "q"     -> <<BS, q>>

RECURSIVE Spell(_, _)
Spell(us, q) == IF us = <<>> THEN <<>> ELSE SpellUnit(us[1], q) \o Spell(Tail(us), q)
Value(us) == [i \in DOMAIN us |-> us[i].cp]

\* a raw "$" directly before a raw "{" would open an interpolation: not a spelling of "${"
NoRawInterp(us) == \A i \in 1..(Len(us) - 1) : ~(us[i].cp = DOLLAR /\ us[i].form = "raw" /\ us[i + 1].cp = LBRACE /\ us[i + 1].form = "raw")

\* ---- an independent reading of the escape grammar -------------------------------------
HexVal(c) == IF c \in 48..57 THEN c - 48 ELSE IF c \in 65..70 THEN c - 55 ELSE IF c \in 97..102 THEN c - 87 ELSE -1
Hex4At(s, i) == HexVal(s[i]) * 4096 + HexVal(s[i + 1]) * 256 + HexVal(s[i + 2]) * 16 + HexVal(s[i + 3])
Unshort == (98 :> 8) @@ (102 :> 12) @@ (110 :> 10) @@ (114 :> 13) @@ (116 :> 9) @@ (47 :> 47) @@ (92 :> 92) @@ (36 :> 36)
RECURSIVE Decode(_, _, _)
Decode(s, i, q) ==
  IF i > Len(s) THEN <<>>
  ELSE IF s[i] # BS THEN <<s[i]>> \o Decode(s, i + 1, q)
  ELSE LET c == s[i + 1] IN
       IF c = q THEN <<q>> \o Decode(s, i + 2, q)
       ELSE IF c = 117 THEN
            LET h == Hex4At(s, i + 2) IN
            IF h \in 55296..56319
            THEN <<65536 + (h - 55296) * 1024 + (Hex4At(s, i + 8) - 56320)>> \o Decode(s, i + 12, q)
            ELSE <<h>> \o Decode(s, i + 6, q)
       ELSE <<Unshort[c]>> \o Decode(s, i + 2, q)

\* the lexer's scan for the end of the literal: position of the first unescaped quote or "${" (Len + 1 if none)
RECURSIVE Scan(_, _, _)
Scan(s, i, q) ==
  IF i > Len(s) THEN i
  ELSE IF s[i] = BS THEN Scan(s, i + 2, q)
  ELSE IF s[i] = q THEN i
  ELSE IF s[i] = DOLLAR /\ i < Len(s) /\ s[i + 1] = LBRACE THEN i
  ELSE Scan(s, i + 1, q)

RoundTrip == Mode = "str" => Decode(Spell(units, quote), 1, quote) = Value(units)
Delimited == Mode = "str" => Scan(Spell(units, quote), 1, quote) = Len(Spell(units, quote)) + 1

\* ---- numbers ------------------------------------------------------------------------------
\* spelling: sign, integer digits, fraction digits ("" = no point), exponent text ("" = none)
Mantissas == {"0", "7", "10", "007", "9007199254740993", "18446744073709551617", "123456789012345678901234567890", "1000000000000000000000000000000000000001"}
Fractions == {"", "0", "5", "25", "000", "123456789"}
Exps == {<<"", 0>>, <<"e0", 0>>, <<"e2", 2>>, <<"E3", 3>>, <<"e+1", 1>>, <<"E+22", 22>>, <<"e40", 40>>, <<"e-1", -1>>, <<"E-3", -3>>, <<"e-7", -7>>, <<"E-12", -12>>}
Nums == {[neg |-> n, int |-> m, frac |-> f, exp |-> e] : n \in BOOLEAN, m \in Mantissas, f \in Fractions, e \in Exps}
\* the lexer's two number tokens (lexer.py): FLOAT = d.d(e[+-]d)? | d e-d ; INT = d(e+?d)?
IsInt(n) == n.frac = "" /\ n.exp[2] >= 0
NumText(n) == (IF n.neg THEN "-" ELSE "") \o n.int \o (IF n.frac = "" THEN "" ELSE "." \o n.frac) \o n.exp[1]
\* the exact value: digits x 10^scale
NumDigits(n) == n.int \o n.frac
NumScale(n) == n.exp[2] - Len(n.frac)

\* ---- JSON-like values (strings as code points) ------------------------------------------------
JStr(s) == [t |-> "cps", c |-> s]
JScalars == {[t |-> "nil"], [t |-> "bool", b |-> TRUE], [t |-> "bool", b |-> FALSE], [t |-> "int", n |-> 0], [t |-> "int", n |-> -7],
             [t |-> "big", d |-> "9007199254740993"], [t |-> "big", d |-> "-123456789012345678901234567890"],
             [t |-> "float", f |-> "0.1"], [t |-> "float", f |-> "1e300"], [t |-> "float", f |-> "-2.5"],
             JStr(<<>>), JStr(<<34, 92>>), JStr(<<10, 9, 8>>), JStr(<<233, 8232>>), JStr(<<128512, 47>>), JStr(<<60, 62, 38, 39>>), JStr(<<31, 127>>)}
JArr(s) == [t |-> "arr", v |-> s]
JHash(ps) == [t |-> "hash", h |-> ps]
Keys == {<<97>>, <<34>>, <<233, 10>>, <<128512>>, <<>>}

\* ---- enumeration ---------------------------------------------------------------------------------
Init == units = <<>> /\ quote \in {DQ, SQ}
Next == /\ Mode = "str" /\ Len(units) < MaxLen
        /\ \E cp \in Alphabet : \E f \in Forms(cp, quote) : units' = Append(units, [cp |-> cp, form |-> f])
        /\ NoRawInterp(units')
        /\ UNCHANGED quote

Opt == [format |-> "TXT", charset |-> "UTF-8", openOptions |-> <<"WRITE", "CREATE", "APPEND">>]
Emit(line) == Serialize(line, IOEnv.OUT_FILE, Opt).exitValue = 0

\* every site where a string may appear: the literal between a prefix and a suffix, what the
\* render prints (the value between two texts), and how the value is fed back as data
Other(q) == IF q = DQ THEN "'" ELSE "\""
Sites(q) == <<
  [site |-> "output",   pre |-> "{{ ", post |-> " }}", before |-> "", after |-> "", hit |-> FALSE],
  [site |-> "filter-arg", pre |-> "{{ 'x' | append: ", post |-> " }}", before |-> "x", after |-> "", hit |-> FALSE],
  [site |-> "assign",   pre |-> "{% assign v = ", post |-> " %}[{{ v }}]", before |-> "[", after |-> "]", hit |-> FALSE],
  [site |-> "echo",     pre |-> "{% echo ", post |-> " %}", before |-> "", after |-> "", hit |-> FALSE],
  [site |-> "path-segment", pre |-> "{{ h[", post |-> "] }}", before |-> "", after |-> "", hit |-> TRUE],
  [site |-> "when",     pre |-> "{% case x %}{% when ", post |-> " %}HIT{% endcase %}", before |-> "", after |-> "", hit |-> TRUE],
  [site |-> "compare",  pre |-> "{% if x == ", post |-> " %}HIT{% endif %}", before |-> "", after |-> "", hit |-> TRUE],
  [site |-> "include-name", pre |-> "{% include ", post |-> " %}", before |-> "", after |-> "", hit |-> TRUE],
  [site |-> "render-name", pre |-> "{% render ", post |-> " %}", before |-> "", after |-> "", hit |-> TRUE],
  [site |-> "extends-name", pre |-> "{% extends ", post |-> " %}", before |-> "", after |-> "", hit |-> TRUE],
  [site |-> "keyword-arg", pre |-> "{% include 'p', v: ", post |-> " %}", before |-> "<", after |-> ">", hit |-> FALSE],
  [site |-> "ternary",  pre |-> "{{ ", post |-> " if true else 'n' }}", before |-> "", after |-> "", hit |-> FALSE],
  [site |-> "default",  pre |-> "{{ nil | default: ", post |-> " }}", before |-> "", after |-> "", hit |-> FALSE],
  [site |-> "cycle",    pre |-> "{% cycle ", post |-> ", 'b' %}", before |-> "", after |-> "", hit |-> FALSE],
  [site |-> "array-literal", pre |-> "{{ 'a', ", post |-> " | last }}", before |-> "", after |-> "", hit |-> FALSE],
  [site |-> "interpolated", pre |-> "{{ " \o Other(q) \o "<${", post |-> "}>" \o Other(q) \o " }}", before |-> "<", after |-> ">", hit |-> FALSE],
  [site |-> "lambda",   pre |-> "{{ xs | where: i => i == ", post |-> " | first }}", before |-> "", after |-> "", hit |-> FALSE],
  \* the optional slots of an expression or tag: a literal is present whatever its value (empty, zero)
  [site |-> "ternary-else", pre |-> "{{ 'y' if false else ", post |-> " }}", before |-> "", after |-> "", hit |-> FALSE],
  [site |-> "ternary-else-filtered", pre |-> "{{ 'y' if false else ", post |-> " | append: '!' }}", before |-> "", after |-> "!", hit |-> FALSE],
  [site |-> "include-with", pre |-> "{% include 'p' with ", post |-> " as v %}", before |-> "<", after |-> ">", hit |-> FALSE],
  [site |-> "render-with", pre |-> "{% render 'p' with ", post |-> " as v %}", before |-> "<", after |-> ">", hit |-> FALSE],
  \* the literal is all a control-flow block writes (a block of nothing but blank nodes is suppressed: a literal is not blank)
  [site |-> "block-output", pre |-> "[{% if true %} {% assign k = 1 %}{{ ", post |-> " }}{% endif %}]", before |-> "[ ", after |-> "]", hit |-> FALSE],
  [site |-> "block-echo", pre |-> "[{% for i in (1..1) %}{% echo ", post |-> " %}{% endfor %}]", before |-> "[", after |-> "]", hit |-> FALSE],
  [site |-> "block-when", pre |-> "[{% case 1 %}{% when 1 %}{{ ", post |-> " }}{% endcase %}]", before |-> "[", after |-> "]", hit |-> FALSE] >>
\* the body of the literal as the text part of a template string: followed by an interpolation
TStrPre == Cps("{{ ")
TStrMid == Cps("${y}")
TStrPost == Cps(" }}")
\* sites inside a line-oriented {% liquid %} tag (serialised from its tokens): only the round trip through str()
\* is judged there (C12) - a raw line break inside a literal is not that tag's syntax
RtSites(q) == <<
  [site |-> "liquid-echo", pre |-> "{% liquid echo ", post |-> " %}", before |-> "", after |-> "", hit |-> FALSE],
  [site |-> "liquid-path", pre |-> "{% liquid echo h[", post |-> "] %}", before |-> "", after |-> "", hit |-> TRUE],
  [site |-> "liquid-assign", pre |-> "{% liquid assign v = 'x' | append: ", post |-> "\n echo v %}", before |-> "x", after |-> "", hit |-> FALSE] >>
AllSites(q) == IF Focus = "roundtrip-lit-str" THEN Sites(q) \o RtSites(q) ELSE Sites(q)
\* (constant-level: TLC evaluates these once, not once per state)
CSites(q) == [i \in DOMAIN AllSites(q) |-> [AllSites(q)[i] EXCEPT !.pre = Cps(@), !.post = Cps(@)]]
SitesDQ == CSites(DQ)
SitesSQ == CSites(SQ)
TStrSite == [site |-> "template-string-text", pre |-> "{{ ", post |-> " }}", before |-> "", after |-> "!", hit |-> FALSE]

Q(q) == <<q>>
ExportStr ==
  Mode = "str" =>
    LET body == Spell(units, quote)
        lit == Q(quote) \o body \o Q(quote)
        ss == IF quote = DQ THEN SitesDQ ELSE SitesSQ
        wide == Len(units) <= 1
    IN /\ \A i \in DOMAIN ss :
            (wide \/ (Len(units) = 2 /\ ss[i].site \in {"output", "path-segment", "interpolated", "include-name", "render-name", "block-output", "liquid-path", "liquid-echo"})
                  \/ (Len(units) >= 3 /\ ss[i].site = "output")) =>
              Emit(ToJson([focus |-> Focus, kind |-> "str", site |-> ss[i].site, quote |-> quote,
                           src |-> ss[i].pre \o lit \o ss[i].post, value |-> Value(units),
                           before |-> ss[i].before, after |-> ss[i].after, hit |-> ss[i].hit,
                           forms |-> [j \in DOMAIN units |-> units[j].form]]) \o "\n")
       /\ Len(units) >= 3 \/ Emit(ToJson([focus |-> Focus, kind |-> "str", site |-> TStrSite.site, quote |-> quote,
                       src |-> TStrPre \o Q(quote) \o body \o TStrMid \o Q(quote) \o TStrPost, value |-> Value(units),
                       before |-> TStrSite.before, after |-> TStrSite.after, hit |-> FALSE,
                       forms |-> [j \in DOMAIN units |-> units[j].form]]) \o "\n")

ExportNum ==
  (Mode = "num" /\ units = <<>> /\ quote = DQ) =>
    \A n \in Nums :
      \* the lexer knows no spelling "d.d e" without digits etc.: all of these are its INT or FLOAT tokens
      Emit(ToJson([focus |-> Focus, kind |-> "num", text |-> NumText(n), isint |-> IsInt(n), neg |-> n.neg,
                   digits |-> NumDigits(n), scale |-> NumScale(n)]) \o "\n")

RECURSIVE SeqsUpTo(_, _)
SeqsUpTo(E, k) == IF k = 0 THEN {<<>>} ELSE SeqsUpTo(E, k - 1) \cup {Append(s, x) : s \in SeqsUpTo(E, k - 1), x \in E}
JLevel1 == JScalars \cup {JArr(s) : s \in SeqsUpTo(JScalars, 2)} \cup {JHash(<<<<k, v>>>>) : k \in Keys, v \in JScalars}
JProbe == {JArr(<<a, JHash(<<<<<<97>>, b>>, <<<<34>>, a>>>>)>>) : a \in JScalars, b \in {JArr(<<>>), JHash(<<>>), JArr(<<JStr(<<92, 117>>)>>)}}
\* arrays inside arrays (and inside hashes inside arrays) keep their shape
JSmall == {[t |-> "nil"], [t |-> "int", n |-> 0], JStr(<<34, 92>>)}
JFlat == {JArr(s) : s \in SeqsUpTo(JSmall, 2)}
JNested == {JArr(<<a, b>>) : a \in JFlat, b \in JFlat \cup JSmall}
           \cup {JArr(<<a>>) : a \in JFlat}
           \cup {JArr(<<x, JArr(<<y, JArr(<<z>>)>>)>>) : x \in JSmall, y \in JSmall, z \in JSmall}
           \cup {JArr(<<JArr(<<>>), JArr(<<JArr(<<>>)>>)>>), JArr(<<JArr(<<JArr(<<JArr(<<JArr(<<JArr(<<[t |-> "int", n |-> 0]>>)>>)>>)>>)>>)>>)}
           \cup {JHash(<<<<<<97>>, JArr(<<a, b>>)>>>>) : a \in JFlat, b \in JSmall}
ExportJson ==
  (Mode = "json" /\ units = <<>> /\ quote = DQ) =>
    \A v \in JLevel1 \cup JProbe \cup JNested : Emit(ToJson([focus |-> Focus, kind |-> "json", value |-> v]) \o "\n")

Export == ExportStr /\ ExportNum /\ ExportJson
=============================================================================
