----------------------------- MODULE LiquidValues -----------------------------
(***************************************************************************)
(* The value universe of Liquid as python-liquid2 documents it, and the    *)
(* value-level semantics: truthiness, equality, ordering, membership,      *)
(* string form, sequence coercion, item access.                            *)
(*                                                                         *)
(* Values are tagged records because TLC compares only like with like.     *)
(* Strings are TLC strings over ASCII; the characters \u0001..\u0007 are   *)
(* placeholders for non-ASCII characters (table in concrete.json, which    *)
(* also gives UTF-8 widths and the whitespace class); the harness applies  *)
(* the table to template text, data and expected output alike.             *)
(***************************************************************************)
EXTENDS Integers, Sequences, FiniteSets, TLC, Json

Conc == JsonDeserialize("concrete.json")

Nil       == [t |-> "nil"]
Undef     == [t |-> "undef"]
EmptyV    == [t |-> "empty"]
BlankV    == [t |-> "blank"]
Bool(b)   == [t |-> "bool", b |-> b]
IntV(n)    == [t |-> "int", n |-> n]
Str(s)    == [t |-> "str", v |-> s, safe |-> FALSE]
Safe(s)   == [t |-> "str", v |-> s, safe |-> TRUE]   \* Markup under auto-escape
Arr(s)    == [t |-> "arr", v |-> s]
Hash(s)   == [t |-> "hash", h |-> s]                 \* ordered <<key, value>> pairs
\* (every kind of value keeps its payload in a field of its own name: TLC compares records
\* field by field and refuses to compare payloads of different types)
Range(a, b) == [t |-> "range", a |-> a, b |-> b]     \* inclusive a..b
Err(c)    == [t |-> "err", cls |-> c]                \* evaluation failed with class c
\* values the harness can hand to the library but whose arithmetic is outside this
\* model (DESIGN.md section 10): floats (incl. nan / inf) and integers beyond 32 bits
Flt(txt)  == [t |-> "float", f |-> txt]
BigInt(d) == [t |-> "big", d |-> d]
\* a plain Python instance: it has a string form and nothing else - no items, no length,
\* no iteration; what it holds in Python attributes does not exist for a template (C05)
Opaque(s) == [t |-> "opaque", s |-> s]

IsErr(v)  == v.t = "err"
IsUndef(v) == v.t = "undef"

-----------------------------------------------------------------------------
(* strings *)
Ch(s, i) == SubSeq(s, i, i)

WsSet == {Conc.ws[i] : i \in DOMAIN Conc.ws}   \* what str.strip()/isspace() treat as space
NlSet == {"\n", "\r"}

RECURSIVE LStripSet(_, _)
LStripSet(s, S) == IF s = "" THEN "" ELSE IF Ch(s, 1) \in S THEN LStripSet(SubSeq(s, 2, Len(s)), S) ELSE s
RECURSIVE RStripSet(_, _)
RStripSet(s, S) == IF s = "" THEN "" ELSE IF Ch(s, Len(s)) \in S THEN RStripSet(SubSeq(s, 1, Len(s) - 1), S) ELSE s
LStrip(s) == LStripSet(s, WsSet)
RStrip(s) == RStripSet(s, WsSet)
Strip(s)  == LStrip(RStrip(s))
IsSpace(s) == s # "" /\ \A i \in 1..Len(s) : Ch(s, i) \in WsSet

\* UTF-8 width of a model string (placeholders stand for multi-byte characters)
ByteWidth(c) == IF \E i \in DOMAIN Conc.wide : Conc.wide[i].p = c
                THEN (CHOOSE w \in {Conc.wide[i] : i \in DOMAIN Conc.wide} : w.p = c).bytes ELSE 1
RECURSIVE Bytes(_)
Bytes(s) == IF s = "" THEN 0 ELSE ByteWidth(Ch(s, 1)) + Bytes(SubSeq(s, 2, Len(s)))

RECURSIVE JoinStr(_, _)
JoinStr(ss, sep) == IF ss = <<>> THEN "" ELSE IF Len(ss) = 1 THEN ss[1]
                    ELSE ss[1] \o sep \o JoinStr(Tail(ss), sep)

\* first index >= from at which `sub` occurs in s, 0 if none
RECURSIVE FindFrom(_, _, _)
FindFrom(s, sub, from) ==
  IF from + Len(sub) - 1 > Len(s) THEN 0
  ELSE IF SubSeq(s, from, from + Len(sub) - 1) = sub THEN from
  ELSE FindFrom(s, sub, from + 1)
Find(s, sub) == FindFrom(s, sub, 1)
HasSub(s, sub) == sub = "" \/ Find(s, sub) > 0

\* printable ASCII in code-point order: ordering of strings
Printable == " !\"#$%&'()*+,-./0123456789:;<=>?@ABCDEFGHIJKLMNOPQRSTUVWXYZ[\\]^_`abcdefghijklmnopqrstuvwxyz{|}~"
Rank(c) == Find(Printable, c)
RECURSIVE StrLt(_, _)
StrLt(a, b) ==
  IF b = "" THEN FALSE
  ELSE IF a = "" THEN TRUE
  ELSE IF Ch(a, 1) = Ch(b, 1) THEN StrLt(SubSeq(a, 2, Len(a)), SubSeq(b, 2, Len(b)))
  ELSE Rank(Ch(a, 1)) < Rank(Ch(b, 1))

Lower == "abcdefghijklmnopqrstuvwxyz"
Upper == "ABCDEFGHIJKLMNOPQRSTUVWXYZ"
UpCh(c)   == LET i == Find(Lower, c) IN IF i > 0 THEN Ch(Upper, i) ELSE c
DownCh(c) == LET i == Find(Upper, c) IN IF i > 0 THEN Ch(Lower, i) ELSE c
RECURSIVE MapCh(_, _)
MapCh(F(_), s) == IF s = "" THEN "" ELSE F(Ch(s, 1)) \o MapCh(F, SubSeq(s, 2, Len(s)))
UpCase(s)   == MapCh(UpCh, s)
DownCase(s) == MapCh(DownCh, s)

\* markupsafe.escape
EscCh(c) == CASE c = "&" -> "&amp;" [] c = "<" -> "&lt;" [] c = ">" -> "&gt;"
              [] c = "'" -> "&#39;" [] c = "\"" -> "&#34;" [] OTHER -> c
Escape(s) == MapCh(EscCh, s)
\* html.escape (what `escape` / `escape_once` use without auto-escape) spells the quotes differently
EscHtmlCh(c) == CASE c = "'" -> "&#x27;" [] c = "\"" -> "&quot;" [] OTHER -> EscCh(c)
EscapeHtml(s) == MapCh(EscHtmlCh, s)
HtmlSig == {"&", "<", ">", "'", "\""}

\* decimal digits of a string -> Nat ; "" if not all digits
Digits == "0123456789"
IsDigits(s) == s # "" /\ \A i \in 1..Len(s) : Find(Digits, Ch(s, i)) > 0
RECURSIVE DigitsVal(_)
DigitsVal(s) == IF s = "" THEN 0 ELSE DigitsVal(SubSeq(s, 1, Len(s) - 1)) * 10 + (Find(Digits, Ch(s, Len(s))) - 1)

-----------------------------------------------------------------------------
(* hashes: ordered sequences of <<key, value>> *)
HKeys(h)   == {h[i][1] : i \in DOMAIN h}
HHas(h, k) == k \in HKeys(h)
HGet(h, k) == h[CHOOSE i \in DOMAIN h : h[i][1] = k][2]
HPut(h, k, v) == IF HHas(h, k) THEN [i \in DOMAIN h |-> IF h[i][1] = k THEN <<k, v>> ELSE h[i]]
                 ELSE Append(h, <<k, v>>)

-----------------------------------------------------------------------------
(* truthiness, equality, ordering  (tag_reference.md "Conditional expressions") *)

\* Only false, nil and undefined are falsy.
Truthy(v) == ~(v.t \in {"nil", "undef"} \/ (v.t = "bool" /\ ~v.b))

RangeLen(r) == IF r.b >= r.a THEN r.b - r.a + 1 ELSE 0
RangeSeq(r) == [i \in 1..RangeLen(r) |-> IntV(r.a + i - 1)]

IsEmptyVal(v) == \/ (v.t = "str" /\ v.v = "")
                 \/ (v.t = "arr" /\ v.v = <<>>) \/ (v.t = "hash" /\ v.h = <<>>)
IsBlankVal(v) == \/ IsEmptyVal(v)
                 \/ (v.t = "str" /\ IsSpace(v.v))

\* ---- decimal numbers: mantissa / 10^scale, exact (floats written with a few digits) ------------
\* A float operand makes the arithmetic filters compute in exact decimal arithmetic
\* (filters/math.py goes through decimal.Decimal(str(x))) and return a float.
Dec(m, e) == [t |-> "dec", dm |-> m, de |-> e]
RECURSIVE Pow10(_)
Pow10(k) == IF k <= 0 THEN 1 ELSE 10 * Pow10(k - 1)
RECURSIVE NormDec(_)
NormDec(d) == IF d.de > 0 /\ d.dm % 10 = 0 THEN NormDec(Dec(d.dm \div 10, d.de - 1)) ELSE d
MaxE(a, b) == IF a.de >= b.de THEN a.de ELSE b.de
UpScale(a, e) == a.dm * Pow10(e - a.de)                     \* mantissa at scale e >= a.de
DPlus(a, b) == NormDec(Dec(UpScale(a, MaxE(a, b)) + UpScale(b, MaxE(a, b)), MaxE(a, b)))
DMinus(a, b) == NormDec(Dec(UpScale(a, MaxE(a, b)) - UpScale(b, MaxE(a, b)), MaxE(a, b)))
DTimes(a, b) == NormDec(Dec(a.dm * b.dm, a.de + b.de))
DLt(a, b) == UpScale(a, MaxE(a, b)) < UpScale(b, MaxE(a, b))
DEq(a, b) == UpScale(a, MaxE(a, b)) = UpScale(b, MaxE(a, b))
DIsZero(a) == a.dm = 0
DFloor(a) == a.dm \div Pow10(a.de)                      \* TLA+ \div floors
DCeil(a) == -((-a.dm) \div Pow10(a.de))
\* a / b as an exact decimal with at most 4 fractional digits, if it has one
DivScale == 4
\* (TLC's % and \div want a positive divisor: the sign of b is moved to a)
QNum(a, b) == LET e == MaxE(a, b) IN (IF UpScale(b, e) < 0 THEN -UpScale(a, e) ELSE UpScale(a, e)) * Pow10(DivScale)
QDen(a, b) == LET e == MaxE(a, b) IN IF UpScale(b, e) < 0 THEN -UpScale(b, e) ELSE UpScale(b, e)
DQuotExact(a, b) == QNum(a, b) % QDen(a, b) = 0
DQuot(a, b) == NormDec(Dec(QNum(a, b) \div QDen(a, b), DivScale))
\* floored modulo, as for integers: a - b * floor(a / b)
DMod(a, b) == LET e == MaxE(a, b) IN NormDec(Dec(UpScale(a, e) % UpScale(b, e), e))
\* rounding to k digits, ties excluded by the caller
DRoundable(a, k) == a.de <= k \/ (a.dm % Pow10(a.de - k)) * 2 # Pow10(a.de - k)
DRound(a, k) == IF a.de <= k THEN a
                ELSE LET cut == Pow10(a.de - k)
                         lo == a.dm \div cut IN
                     NormDec(Dec(IF (a.dm % cut) * 2 > cut THEN lo + 1 ELSE lo, k))

\* the text of a float (Python repr for these magnitudes): at least one fractional digit
DecText(d0) ==
  LET d == NormDec(d0)
      neg == d.dm < 0
      digits == ToString(IF neg THEN -d.dm ELSE d.dm)
      padded == IF Len(digits) <= d.de THEN SubSeq("0000000000", 1, d.de - Len(digits) + 1) \o digits ELSE digits
      ip == SubSeq(padded, 1, Len(padded) - d.de)
      fp == SubSeq(padded, Len(padded) - d.de + 1, Len(padded))
  IN (IF neg THEN "-" ELSE "") \o ip \o "." \o (IF fp = "" THEN "0" ELSE fp)

IsNumV(x) == x.t \in {"int", "dec"}
AsDec(x) == IF x.t = "int" THEN Dec(x.n, 0) ELSE x

RECURSIVE LEq(_, _)
LEq(a, b) ==
  CASE a.t = "empty" /\ b.t = "empty" -> TRUE
    [] a.t = "blank" /\ b.t = "blank" -> TRUE
    [] a.t = "empty" -> IsEmptyVal(b)
    [] b.t = "empty" -> IsEmptyVal(a)
    [] a.t = "blank" -> IsBlankVal(b)
    [] b.t = "blank" -> IsBlankVal(a)
    [] a.t = "bool" \/ b.t = "bool" -> a.t = "bool" /\ b.t = "bool" /\ a.b = b.b
    [] a.t \in {"nil", "undef"} -> b.t \in {"nil", "undef"}
    [] b.t \in {"nil", "undef"} -> FALSE
    [] a.t = "int" /\ b.t = "int" -> a.n = b.n
    [] IsNumV(a) /\ IsNumV(b) -> DEq(AsDec(a), AsDec(b))
    [] a.t = "str" /\ b.t = "str" -> a.v = b.v
    [] a.t = "arr" /\ b.t = "arr" ->
         Len(a.v) = Len(b.v) /\ \A i \in DOMAIN a.v : LEq(a.v[i], b.v[i])
    [] a.t = "hash" /\ b.t = "hash" ->
         HKeys(a.h) = HKeys(b.h) /\ \A k \in HKeys(a.h) : LEq(HGet(a.h, k), HGet(b.h, k))
    [] a.t = "range" /\ b.t = "range" -> a.a = b.a /\ a.b = b.b
    [] OTHER -> FALSE

\* a < b : 1 = true, 0 = false, 2 = LiquidTypeError
LLt(a, b) ==
  CASE a.t = "str" /\ b.t = "str" -> IF StrLt(a.v, b.v) THEN 1 ELSE 0
    [] a.t = "bool" \/ b.t = "bool" -> 0
    [] a.t = "int" /\ b.t = "int" -> IF a.n < b.n THEN 1 ELSE 0
    [] IsNumV(a) /\ IsNumV(b) -> IF DLt(AsDec(a), AsDec(b)) THEN 1 ELSE 0
    [] OTHER -> 2

-----------------------------------------------------------------------------
(* string form of a value at an output site (stringify.py) *)
RECURSIVE OutStr(_)
OutStr(v) ==
  CASE v.t = "str"   -> v.v
    [] v.t = "bool"  -> IF v.b THEN "true" ELSE "false"
    [] v.t = "int"   -> ToString(v.n)
    [] v.t = "dec"   -> DecText(v)
    [] v.t = "range" -> ToString(v.a) \o ".." \o ToString(v.b)
    [] v.t = "arr"   -> JoinStr([i \in DOMAIN v.v |-> OutStr(v.v[i])], "")
    [] OTHER         -> ""     \* nil, undefined, empty, blank

\* string form under auto-escape: unsafe text is escaped, safe text passes
RECURSIVE OutStrEsc(_)
OutStrEsc(v) ==
  CASE v.t = "str"   -> IF v.safe THEN v.v ELSE Escape(v.v)
    [] v.t = "arr"   -> JoinStr([i \in DOMAIN v.v |-> OutStrEsc(v.v[i])], "")
    [] OTHER         -> Escape(OutStr(v))

\* values whose string form the documentation does not fix (see UNSPECIFIED.md):
\* hashes (and drops), also inside arrays
RECURSIVE Unprintable(_)
Unprintable(v) == \/ v.t \in {"hash", "forloop", "trloop", "blockdrop"}
                  \/ (v.t = "arr" /\ \E i \in DOMAIN v.v : Unprintable(v.v[i]))

RECURSIVE Exotic(_)
Exotic(v) == \/ v.t \in {"float", "big", "odrop", "opaque"}
             \/ (v.t = "arr" /\ \E i \in DOMAIN v.v : Exotic(v.v[i]))
             \/ (v.t = "hash" /\ \E i \in DOMAIN v.h : Exotic(v.h[i][2]))

\* str() as filters see it (string_filter decorator): like OutStr
ToStr(v) == OutStr(v)

-----------------------------------------------------------------------------
(* item access: RenderContext.get_item.  Result Undef when the lookup fails. *)
Item(obj, key) ==
  CASE obj.t = "hash" /\ key.t = "str" ->
         IF HHas(obj.h, key.v) THEN HGet(obj.h, key.v)
         ELSE IF key.v = "size" THEN IntV(Len(obj.h))
         ELSE IF key.v = "first" /\ obj.h # <<>> THEN Arr(<<Str(obj.h[1][1]), obj.h[1][2]>>)
         ELSE Undef
    [] obj.t = "arr" /\ key.t = "int" ->
         IF key.n >= 0 /\ key.n < Len(obj.v) THEN obj.v[key.n + 1]
         ELSE IF key.n < 0 /\ -key.n <= Len(obj.v) THEN obj.v[Len(obj.v) + key.n + 1]
         ELSE Undef
    [] obj.t = "arr" /\ key.t = "str" ->
         IF key.v = "size" THEN IntV(Len(obj.v))
         ELSE IF key.v = "first" /\ obj.v # <<>> THEN obj.v[1]
         ELSE IF key.v = "last" /\ obj.v # <<>> THEN obj.v[Len(obj.v)]
         ELSE Undef
    [] obj.t = "range" /\ key.t = "str" ->
         IF key.v = "size" THEN IntV(RangeLen(obj))
         ELSE IF key.v = "first" /\ RangeLen(obj) > 0 THEN IntV(obj.a)
         ELSE IF key.v = "last" /\ RangeLen(obj) > 0 THEN IntV(obj.b)
         ELSE Undef
    [] obj.t = "str" /\ key.t = "str" ->
         IF key.v = "size" THEN IntV(Len(obj.v))
         ELSE IF key.v \in {"first", "last"} THEN Err("UNSPEC")   \* see UNSPECIFIED.md
         ELSE Undef
    [] obj.t = "str" /\ key.t = "int" -> Err("UNSPEC")             \* indexing a string
    [] OTHER -> Undef

\* sequence coercion for loops: arrays, ranges, hashes as [key, value] pairs;
\* undefined iterates as empty; anything else is a type error ("notiter")
IterSeq(v) ==
  CASE v.t = "arr"   -> [ok |-> TRUE, v |-> v.v]
    [] v.t = "range" -> [ok |-> TRUE, v |-> RangeSeq(v)]
    [] v.t = "hash"  -> [ok |-> TRUE, v |-> [i \in DOMAIN v.h |-> Arr(<<Str(v.h[i][1]), v.h[i][2]>>)]]
    [] v.t = "undef" -> [ok |-> TRUE, v |-> <<>>]
    [] OTHER -> [ok |-> FALSE, v |-> <<>>]

Reverse(s) == [i \in DOMAIN s |-> s[Len(s) - i + 1]]
=============================================================================
