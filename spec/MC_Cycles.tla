-------------------------------- MODULE MC_Cycles --------------------------------
(* Focus "cycles": cycle tags whose items are the same values written differently     *)
(* ('a' / "a", 10 / 1e1), named groups written bare and quoted, items that are         *)
(* variables - a group is identified by its name and the values written, not by the    *)
(* spelling (C01), and str() may respell without regrouping (C12).                      *)
EXTENDS LiquidGen, LiquidAst

MCData == { << <<<<"x", Str("a")>>, <<"y", Str("b")>>>>, <<>>, <<>>, <<>> >> }
MCCfgs == {Cfg("+", TRUE, FALSE, "default")}
MCPartials == <<>>

A1 == <<S("a"), S("b")>>                       A2 == <<SQ("a", "\""), SQ("b", "\"")>>
N1 == <<I(10), I(2), I(3)>>                   N2 == <<IntT("1e1", 10), I(2), I(3)>>
\* groups that differ only in values a hash function may confuse (in CPython -1 and -2, 1 and 1.0 hash alike)
M1 == <<I(-1), I(0)>>                          M2 == <<I(-2), I(0)>>
F1 == <<I(1), I(2)>>                           F2 == <<FloatE("1.0", 10, 1), FloatE("2.0", 20, 1)>>
MCPool == {Cycle("", M1, "|-1,0"), Cycle("", M2, "|-2,0"), Cycle("", F1, "|1,2"), Cycle("", F2, "|1.0,2.0"),
           Cycle("", A1, "|a,b"), Cycle("", A2, "|a,b"), Cycle("", N1, "|10,2,3"), Cycle("", N2, "|10,2,3"),
           Cycle("g", A1, "g|a,b"), Quoted(Cycle("g", A2, "g|a,b")), Cycle("h", A1, "h|a,b"),
           Cycle("", <<V("x"), V("y")>>, "|x,y"), NText("-")}
MCPoolAt(i) == MCPool
=============================================================================
