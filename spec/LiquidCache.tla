------------------------------ MODULE LiquidCache ------------------------------
(***************************************************************************)
(* Caching template loaders of python-liquid2, written the way the code    *)
(* works (liquid2/builtin/loaders/mixins.py: load/_check_cache and their   *)
(* async twins; liquid2/utils/lru_cache.py: OrderedDict + move_to_end +    *)
(* popitem(last=False)), next to an uncached reference and an independent  *)
(* (time-stamp) statement of "least recently used".                        *)
(*                                                                         *)
(* One action per critical section of the code:                            *)
(*   LoadSync        load() -> _check_cache(): lookup, staleness check,    *)
(*                   inner load, store, globals rebinding - no await, so   *)
(*                   atomic.                                               *)
(*   AsyncBegin      load_async() up to the first await: cache lookup      *)
(*                   (which already moves the entry to the MRU end).       *)
(*   AsyncUptodate   resumption after `await is_up_to_date_async()`.       *)
(*   AsyncLoadStore  resumption after `await get_source_async()`: parse,   *)
(*                   `self.cache[key] = template`, return.                 *)
(*   Modify/Delete/FaultNext   the environment: source store and faults.   *)
(* Every completed load is also rendered ("load-and-render" step of C14).  *)
(***************************************************************************)
EXTENDS Naturals, Sequences, FiniteSets, TLC

CONSTANTS
  Names,       \* template names
  Spaces,      \* loader namespaces (tenants); every load names one
  Globs,       \* globals a caller may attach; NoGlob = the caller passes none
  Capacity,    \* LRU capacity (>= 1)
  AutoReload,  \* BOOLEAN  loader option auto_reload
  Fresh,       \* BOOLEAN  the inner loader supplies freshness information
  MaxVer,      \* bound on source versions
  MaxOps,      \* bound on the number of environment/caller operations
  Tasks,       \* async tasks that may be in flight at the same time
  Modes,       \* subset of {"sync","async"}
  Record,      \* BOOLEAN  keep the history (S->C export) or not (invariants)
  Dev          \* named deviations of the code from this design (known findings)

NoGlob == "g0"
Keys   == Spaces \X Names
Idle   == [ph |-> "idle"]

VARIABLES
  store,    \* [Keys -> 0..MaxVer]; 0 = the source does not exist
  cache,    \* Seq of [key, ver, glob]; Head = least recently used
  fault,    \* BOOLEAN  the next inner get_source(_async) raises
  pend,     \* [Tasks -> Idle or the suspended load of that task]
  clock,    \* logical time (ghost)
  lastUse,  \* [Keys -> Nat] ghost: time of the last lookup hit or store of the key
  validVer, \* [Keys -> 0..MaxVer] ghost: version read by the inner load that
            \* produced the entry now cached under the key; 0 = not cached
  nops,     \* operations so far
  cur,      \* the operation performed by the last step
  obs,      \* what the caller observed in the last step (or "none")
  hist,     \* recorded history of <<operation, observation>> (iff Record)
  handles   \* ghost: the Template objects callers were handed and may still hold - what each was
            \* loaded as (key, version, globals); the two most recent ones

vars == <<store, cache, fault, pend, clock, lastUse, validVer, nops, cur, obs, hist, handles>>

-----------------------------------------------------------------------------
(* The LRU cache as the code implements it. *)

CachedKeys(c) == {c[i].key : i \in DOMAIN c}
IndexOf(c, k) == CHOOSE i \in DOMAIN c : c[i].key = k
Without(c, k) == SelectSeq(c, LAMBDA e : e.key # k)

\* LRUCache.__getitem__: value + move_to_end
Touch(c, k)   == LET e == c[IndexOf(c, k)] IN Append(Without(c, k), e)

\* LRUCache.__setitem__: move_to_end if present, else evict the head when full
Put(c, e) ==
  IF e.key \in CachedKeys(c) THEN Append(Without(c, e.key), e)
  ELSE IF Len(c) >= Capacity THEN Append(Tail(c), e)
  ELSE Append(c, e)

\* replace the globals of the entry cached under k (Template.global_data = ...)
Rebind(c, k, g) == [i \in DOMAIN c |-> IF c[i].key = k THEN [c[i] EXCEPT !.glob = g] ELSE c[i]]

-----------------------------------------------------------------------------
(* Observations.  `text` stands for the rendered page: it shows which source *)
(* (key and version) was parsed and which globals the render saw.           *)

Ok(k, v, g, req, inner, c) == [kind |-> "ok", key |-> k, ver |-> v, glob |-> g, req |-> req,
                               inner |-> inner, size |-> Len(c)]
Err(k, cls, inner, c)  == [kind |-> cls, key |-> k, ver |-> 0, glob |-> NoGlob, req |-> NoGlob,
                           inner |-> inner, size |-> Len(c)]
NoObs == [kind |-> "none"]

\* The uncached reference loader at this moment.
Reference(k, g) ==
  IF fault THEN [kind |-> "fault"]
  ELSE IF store[k] = 0 THEN [kind |-> "notfound"]
  ELSE [kind |-> "ok", ver |-> store[k], glob |-> g]

\* globals a hit serves: the design rebinds unconditionally; the code as found
\* keeps the previous caller's globals when the new caller passes none.
HitGlob(old, g) == IF "KeepGlobals" \in Dev /\ g = NoGlob THEN old ELSE g

Log(op, o) == /\ cur' = op
              /\ hist' = IF Record THEN Append(hist, [op |-> op, obs |-> o]) ELSE hist

Tick == /\ clock' = clock + 1
        /\ nops' = nops + 1

-----------------------------------------------------------------------------
(* The inner load: one call of the wrapped loader's get_source + parse. *)
\* result: <<outcome, fault', cache'>> for key k, globals g, starting from cache c
\* am = the load goes through load_async (the freshness callable it attaches to
\* the template is then a coroutine function)
InnerLoad(k, g, c, am) ==
  IF fault THEN [o |-> Err(k, "fault", TRUE, c), c |-> c, f |-> FALSE]
  ELSE IF store[k] = 0 THEN [o |-> Err(k, "notfound", TRUE, c), c |-> c, f |-> FALSE]
  ELSE LET c2 == Put(c, [key |-> k, ver |-> store[k], glob |-> g, am |-> am])
       IN  [o |-> Ok(k, store[k], g, g, TRUE, c2), c |-> c2, f |-> FALSE]

NeedCheck == AutoReload /\ Fresh

-----------------------------------------------------------------------------
LoadSync(k, g) ==
  /\ LET op == [op |-> "load", mode |-> "sync", sp |-> k[1], nm |-> k[2], glob |-> g, task |-> 0] IN
     IF k \in CachedKeys(cache)
     THEN LET c1 == Touch(cache, k)
              e  == cache[IndexOf(cache, k)]
          \* Template.is_up_to_date(): a freshness callable that does not return
          \* a bool (the coroutine function left by an async load) counts as stale
          IN IF NeedCheck /\ (e.am \/ e.ver # store[k])
             THEN LET r == InnerLoad(k, g, c1, FALSE) IN
                  /\ cache' = r.c /\ fault' = r.f /\ obs' = r.o /\ Log(op, r.o)
             ELSE LET g2 == HitGlob(e.glob, g)
                      c2 == Rebind(c1, k, g2)
                      o  == Ok(k, e.ver, g2, g, FALSE, c2)
                  IN /\ cache' = c2 /\ fault' = fault /\ obs' = o /\ Log(op, o)
     ELSE LET r == InnerLoad(k, g, cache, FALSE) IN
          /\ cache' = r.c /\ fault' = r.f /\ obs' = r.o /\ Log(op, r.o)
  /\ UNCHANGED <<store, pend>>
  /\ Tick

AsyncBegin(t, k, g) ==
  /\ pend[t] = Idle
  /\ LET op == [op |-> "load", mode |-> "async", sp |-> k[1], nm |-> k[2], glob |-> g, task |-> t] IN
     IF k \in CachedKeys(cache)
     THEN LET c1 == Touch(cache, k)
              e  == cache[IndexOf(cache, k)]
          IN IF NeedCheck /\ e.am
             THEN \* suspended in `await cached_template.is_up_to_date_async()`
                  /\ cache' = c1
                  /\ pend' = [pend EXCEPT ![t] = [ph |-> "uptodate", key |-> k, glob |-> g,
                                                  ver |-> e.ver, eglob |-> e.glob]]
                  /\ obs' = NoObs /\ Log(op, NoObs)
             ELSE IF NeedCheck /\ e.ver # store[k]
             THEN \* entry loaded by a sync load: its freshness callable answers at once
                  \* (no await); stale, so suspended in `await load_func()`
                  /\ cache' = c1
                  /\ pend' = [pend EXCEPT ![t] = [ph |-> "load", key |-> k, glob |-> g]]
                  /\ obs' = NoObs /\ Log(op, NoObs)
             ELSE LET g2 == HitGlob(e.glob, g)
                      c2 == Rebind(c1, k, g2)
                      o  == Ok(k, e.ver, g2, g, FALSE, c2)
                  IN /\ cache' = c2 /\ pend' = pend /\ obs' = o /\ Log(op, o)
     ELSE \* suspended in `await load_func()` -> get_source_async
          /\ cache' = cache
          /\ pend' = [pend EXCEPT ![t] = [ph |-> "load", key |-> k, glob |-> g]]
          /\ obs' = NoObs /\ Log(op, NoObs)
  /\ UNCHANGED <<store, fault>>
  /\ Tick

\* resumption after the freshness check; the task holds the Template object it
\* found at AsyncBegin, whether or not it is still cached
AsyncUptodate(t) ==
  /\ pend[t].ph = "uptodate"
  /\ LET p  == pend[t]
         op == [op |-> "resume", task |-> t] IN
     IF p.ver # store[p.key]
     THEN \* stale: go on to `await load_func()`
          /\ pend' = [pend EXCEPT ![t] = [ph |-> "load", key |-> p.key, glob |-> p.glob]]
          /\ cache' = cache /\ obs' = NoObs /\ Log(op, NoObs)
     ELSE LET g2 == HitGlob(p.eglob, p.glob)
              \* the rebinding goes to the Template object; it shows in the cache
              \* only if that very object (same version) is still the cached one
              same == p.key \in CachedKeys(cache) /\ cache[IndexOf(cache, p.key)].ver = p.ver
              c2 == IF same THEN Rebind(cache, p.key, g2) ELSE cache
              o  == Ok(p.key, p.ver, g2, p.glob, FALSE, c2)
          IN /\ pend' = [pend EXCEPT ![t] = Idle]
             /\ cache' = c2 /\ obs' = o /\ Log(op, o)
  /\ UNCHANGED <<store, fault>>
  /\ clock' = clock + 1 /\ nops' = nops

AsyncLoadStore(t) ==
  /\ pend[t].ph = "load"
  /\ LET p  == pend[t]
         op == [op |-> "resume", task |-> t]
         r  == InnerLoad(p.key, p.glob, cache, TRUE) IN
     /\ cache' = r.c /\ fault' = r.f /\ obs' = r.o /\ Log(op, r.o)
     /\ pend' = [pend EXCEPT ![t] = Idle]
  /\ UNCHANGED store
  /\ clock' = clock + 1 /\ nops' = nops

Modify(k) ==
  /\ store[k] # 0 /\ store[k] < MaxVer
  /\ store' = [store EXCEPT ![k] = @ + 1]
  /\ obs' = NoObs /\ Log([op |-> "modify", sp |-> k[1], nm |-> k[2]], NoObs)
  /\ UNCHANGED <<cache, fault, pend>> /\ Tick

Delete(k) ==
  /\ store[k] # 0
  /\ store' = [store EXCEPT ![k] = 0]
  /\ obs' = NoObs /\ Log([op |-> "delete", sp |-> k[1], nm |-> k[2]], NoObs)
  /\ UNCHANGED <<cache, fault, pend>> /\ Tick

FaultNext ==
  /\ ~fault
  /\ fault' = TRUE
  /\ obs' = NoObs /\ Log([op |-> "fault"], NoObs)
  /\ UNCHANGED <<store, cache, pend>> /\ Tick

-----------------------------------------------------------------------------
(* Ghosts, maintained from the visible effect of a step only (not per action) *)
GhostNext ==
  /\ lastUse' = [k \in Keys |->
        IF /\ k \in CachedKeys(cache')
           /\ \/ (cur'.op = "load" /\ <<cur'.sp, cur'.nm>> = k)
              \/ (obs'.kind = "ok" /\ obs'.inner /\ obs'.key = k)
        THEN clock' ELSE lastUse[k]]
  /\ validVer' = [k \in Keys |->
        IF k \notin CachedKeys(cache') THEN 0
        ELSE IF obs'.kind = "ok" /\ obs'.key = k /\ obs'.inner THEN obs'.ver
        ELSE validVer[k]]
  /\ handles' = IF obs'.kind = "ok"
                 THEN LET hs == Append(handles, [key |-> obs'.key, ver |-> obs'.ver, glob |-> obs'.glob])
                      IN IF Len(hs) > 2 THEN Tail(hs) ELSE hs
                 ELSE handles

Init ==
  /\ store \in [Keys -> {1}]
  /\ cache = <<>>
  /\ fault = FALSE
  /\ pend = [t \in Tasks |-> Idle]
  /\ clock = 0
  /\ lastUse = [k \in Keys |-> 0]
  /\ validVer = [k \in Keys |-> 0]
  /\ nops = 0
  /\ cur = [op |-> "init"]
  /\ obs = NoObs
  /\ hist = <<>>
  /\ handles = <<>>

\* one named disjunct per action (so that TLC's coverage reports each of them)
DoLoadSync   == \E k \in Keys, g \in Globs :
                   nops < MaxOps /\ "sync" \in Modes /\ LoadSync(k, g) /\ GhostNext
DoAsyncBegin == \E t \in Tasks, k \in Keys, g \in Globs :
                   nops < MaxOps /\ "async" \in Modes /\ AsyncBegin(t, k, g) /\ GhostNext
DoAsyncUptodate  == \E t \in Tasks : AsyncUptodate(t) /\ GhostNext
DoAsyncLoadStore == \E t \in Tasks : AsyncLoadStore(t) /\ GhostNext
DoModify     == \E k \in Keys : nops < MaxOps /\ Modify(k) /\ GhostNext
DoDelete     == \E k \in Keys : nops < MaxOps /\ Delete(k) /\ GhostNext
DoFaultNext  == nops < MaxOps /\ FaultNext /\ GhostNext

Next == \/ DoLoadSync \/ DoAsyncBegin \/ DoAsyncUptodate \/ DoAsyncLoadStore
        \/ DoModify \/ DoDelete \/ DoFaultNext

Spec == Init /\ [][Next]_vars /\ WF_vars(DoAsyncUptodate \/ DoAsyncLoadStore)

-----------------------------------------------------------------------------
(* Properties (C14) *)

TypeOK ==
  /\ store \in [Keys -> 0..MaxVer]
  /\ fault \in BOOLEAN
  /\ \A i \in DOMAIN cache : cache[i].key \in Keys /\ cache[i].ver \in 1..MaxVer /\ cache[i].glob \in Globs /\ cache[i].am \in BOOLEAN

\* never more entries than the capacity, one entry per key
CapacityInv ==
  /\ Len(cache) <= Capacity
  /\ \A i, j \in DOMAIN cache : cache[i].key = cache[j].key => i = j

\* an evicted key is one whose last use is the oldest among the cached keys
LRUOrder ==
  [][\A k \in CachedKeys(cache) \ CachedKeys(cache') :
        \A k2 \in CachedKeys(cache) : lastUse[k] <= lastUse[k2]]_vars

\* the OrderedDict order is the order of last use
OrderIsRecency ==
  \A i, j \in DOMAIN cache : i < j => lastUse[cache[i].key] <= lastUse[cache[j].key]

\* a completed load shows the source of the key that was asked for - never that
\* of another name or namespace - and exactly the globals the caller passed
NoCrossNamespace == obs.kind = "ok" => obs.key \in Keys
NoGlobalsCarryOver == obs.kind = "ok" => obs.glob = obs.req
\* ... nor a later caller's globals into the render of a Template an earlier caller still holds: what a
\* held Template renders is what it was loaded as.  As found (deviation RebindShared) the object handed out
\* was the cache entry itself, and a later hit rebound its globals.
HeldView(h) == IF "RebindShared" \in Dev /\ h.key \in CachedKeys(cache) /\ cache[IndexOf(cache, h.key)].ver = h.ver
               THEN [h EXCEPT !.glob = cache[IndexOf(cache, h.key)].glob] ELSE h
HandlesStable == \A i \in DOMAIN handles : HeldView(handles[i]) = handles[i]

\* With auto-reload and freshness information every completed step returns
\* what the uncached loader returns at that moment (version now in the store,
\* not-found iff absent).
TransparentFresh ==
  (AutoReload /\ Fresh) =>
     /\ obs.kind = "ok" => obs.ver = store[obs.key]
     /\ obs.kind = "notfound" => store[obs.key] = 0

\* Without, a hit returns what the inner loader produced when the entry was
\* last loaded and not since evicted; a miss returns the current source.
TransparentStale ==
  /\ (obs.kind = "ok" /\ ~obs.inner /\ ~(AutoReload /\ Fresh)) => obs.ver = validVer[obs.key]
  /\ (obs.kind = "ok" /\ obs.inner) => obs.ver = store[obs.key]
  /\ obs.kind = "notfound" => store[obs.key] = 0

\* a load that did not ask the inner loader found its key cached before the step
HitOnlyIfCached ==
  [][(obs'.kind = "ok" /\ ~obs'.inner /\ obs' # obs) =>
       (obs'.key \in CachedKeys(cache) \/ \E t \in Tasks : pend[t].ph = "uptodate" /\ pend[t].key = obs'.key)]_vars

\* a failed load leaves no entry for a key that was not cached before
FailureStoresNothing ==
  [][(obs'.kind \in {"fault", "notfound"}) => CachedKeys(cache') \subseteq CachedKeys(cache)]_vars

\* every suspended task eventually completes (async loads terminate)
Terminates == \A t \in Tasks : (pend[t] # Idle) ~> (pend[t] = Idle)

-----------------------------------------------------------------------------
(* Model-checking helpers *)
Bound == nops <= MaxOps
View  == <<store, cache, fault, pend, lastUse, validVer, cur, obs, nops>>
=============================================================================
