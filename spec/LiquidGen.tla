------------------------------- MODULE LiquidGen -------------------------------
(***************************************************************************)
(* Build phase shared by the program-level checks: the template is state   *)
(* of the specification.  Each step appends one node drawn from the pool   *)
(* of the focus configuration, so TLC's breadth-first search visits every  *)
(* program of up to MaxTop top-level nodes (bounded-exhaustive) and        *)
(* -simulate walks random ones.  Every program reached is rendered by the  *)
(* reference semantics under every data set and configuration of the focus *)
(* and exported - template text (LiquidSrc), data, configuration, expected *)
(* result - as one JSON line for the harness to replay into the library.   *)
(***************************************************************************)
EXTENDS LiquidSem, LiquidSrc, IOUtils

CONSTANTS
  PoolAt(_), \* PoolAt(i): set of nodes the i-th top-level node is drawn from
             \* (blocks carry their bodies)
  DataSets,  \* set of data valuations: each a sequence of global layers
  Cfgs,      \* set of configurations
  Partials,  \* the loader's other templates: sequence of <<name, nodes>>
  MaxTop,    \* maximal number of top-level nodes
  Focus      \* name of the focus (goes into the record)

VARIABLES prog

Init == prog = <<>>

\* the lexer merges adjacent text, so a program never has two text nodes in a row
Add(n) ==
  /\ Len(prog) < MaxTop
  /\ ~(n.k = "text" /\ prog # <<>> /\ prog[Len(prog)].k = "text")
  /\ prog' = Append(prog, n)

Next == \E n \in PoolAt(Len(prog) + 1) : Add(n)

Spec == Init /\ [][Next]_prog

AnnPartials == [i \in DOMAIN Partials |-> <<Partials[i][1], AnnotTemplate(Partials[i][2])>>]
Tpls(p) == <<<<"main", AnnotTemplate(p)>>>> \o AnnPartials
Expect(d, c) == Render(<<<<"main", AnnotTemplate(prog)>>>> \o AnnPartials, "main", d, c)

Record(d, c) ==
  LET r == Expect(d, c) IN
  [focus |-> Focus, main |-> "main",
   templates |-> <<<<"main", Src(prog)>>>> \o [i \in DOMAIN Partials |-> <<Partials[i][1], Src(Partials[i][2])>>],
   data |-> d, cfg |-> c, expect |-> r]

Emit(text) ==
  LET r == Serialize(text, IOEnv.OUT_FILE,
                     [format |-> "TXT", charset |-> "UTF-8",
                      openOptions |-> <<"WRITE", "CREATE", "APPEND">>])
  IN IF r.exitValue = 0 THEN TRUE ELSE PrintT(<<"Serialize failed", r>>) /\ FALSE

RECURSIVE Cat(_)
Cat(ss) == IF ss = <<>> THEN "" ELSE ss[1] \o Cat(Tail(ss))

RECURSIVE SetAsSeq(_)
SetAsSeq(S) == IF S = {} THEN <<>> ELSE LET x == CHOOSE y \in S : TRUE IN <<x>> \o SetAsSeq(S \ {x})
Combos == SetAsSeq(DataSets \X Cfgs)

\* "invariant" with a side effect: export every behaviour the model can predict,
\* one line per data set and configuration.  (One write per line: TLC interns every
\* string it builds, so concatenating lines first costs quadratic memory.)
Export ==
  prog # <<>> =>
    \A i \in DOMAIN Combos :
       LET rec == Record(Combos[i][1], Combos[i][2]) IN
       IF rec.expect.err = "UNSPEC" THEN TRUE ELSE Emit(ToJson(rec) \o "\n")

\* the same without dropping the behaviours the model refuses to predict (C02 only
\* needs the inputs: its oracle is the error model, not the expected text)
ExportAll ==
  prog # <<>> =>
    \A i \in DOMAIN Combos : Emit(ToJson(Record(Combos[i][1], Combos[i][2])) \o "\n")

\* C16: the default-policy expectation plus whether the render touches an
\* undefined at all (touch mode), for the three-policy comparison in the harness
ExportUndef ==
  prog # <<>> =>
    \A i \in DOMAIN Combos :
       LET rec == Record(Combos[i][1], Combos[i][2])
           tch == Expect(Combos[i][1], [Combos[i][2] EXCEPT !.undef = "touch"])
           \* the policies themselves on the reference: an undefined that is bound to a name, passed on or
           \* stored is not used; one that is printed, tested, compared, iterated, indexed or filtered is
           str == Expect(Combos[i][1], [Combos[i][2] EXCEPT !.undef = "strict"])
           fal == Expect(Combos[i][1], [Combos[i][2] EXCEPT !.undef = "falsy"]) IN
       IF rec.expect.err = "UNSPEC" \/ tch.err = "UNSPEC" THEN TRUE
       ELSE Emit(ToJson([rec EXCEPT !.expect = [ok |-> rec.expect.ok, err |-> rec.expect.err, out |-> rec.expect.out,
                                                  touched |-> (tch.err = "UndefinedError"),
                                                  strict |-> str.err, falsy |-> fal.err]]) \o "\n")

\* C11: the names a render looks up in the global namespace, read off the reference semantics:
\* a render that touches no undefined with data d, and does once g alone is taken away, looked g up
NamesOf(d) == UNION {{d[l][i][1] : i \in DOMAIN d[l]} : l \in DOMAIN d}
DataWithout(d, g) == [l \in DOMAIN d |-> SelectSeq(d[l], LAMBDA p : p[1] # g)]
TouchRun(d, c) == Expect(d, [c EXCEPT !.undef = "touch"])
LookedUp(d, c) == IF ~TouchRun(d, c).ok THEN {} ELSE {g \in NamesOf(d) : TouchRun(DataWithout(d, g), c).err = "UndefinedError"}
ExportGlobals ==
  prog # <<>> =>
    \A i \in DOMAIN Combos :
       LET d == Combos[i][1]
           c == Combos[i][2]
           g == LookedUp(d, c) IN
       IF g = {} THEN TRUE
       ELSE Emit(ToJson([focus |-> Focus, main |-> "main",
               templates |-> <<<<"main", Src(prog)>>>> \o [j \in DOMAIN Partials |-> <<Partials[j][1], Src(Partials[j][2])>>],
               data |-> d, cfg |-> c, expect |-> [ok |-> TRUE, err |-> "", out |-> ""],
               looked_up |-> SetAsSeq(g)]) \o "\n")

\* C17: where every top-level node of the program begins in the text LiquidSrc writes for it, and
\* where its first markup ends (the node's token)
RECURSIVE StartsOf(_, _)
StartsOf(p, at) == IF p = <<>> THEN <<>> ELSE <<at>> \o StartsOf(Tail(p), at + Len(NSrc(p[1])))
ExportStarts ==
  prog # <<>> =>
    Emit(ToJson([focus |-> Focus, src |-> Src(prog), starts |-> StartsOf(prog, 0), kinds |-> [i \in DOMAIN prog |-> prog[i].k],
                 lens |-> [i \in DOMAIN prog |-> Len(NSrc(prog[i]))]]) \o "\n")

\* C16 on the reference: a render that touches no undefined is the same under
\* every policy
PolicyIrrelevantWithoutTouch ==
  \A d \in DataSets, c \in Cfgs :
     LET tch == Expect(d, [c EXCEPT !.undef = "touch"]) IN
     tch.err # "UndefinedError" =>
        \A pol \in {"default", "strict", "falsy"} : Expect(d, [c EXCEPT !.undef = pol]) = tch

\* C06: the unlimited render with its consumption measures
DepthProbe == 12
ExportMeasures ==
  prog # <<>> =>
    \A i \in DOMAIN Combos :
       LET m == Measure(Tpls(prog), "main", Combos[i][1], Combos[i][2]) IN
       IF m.err = "UNSPEC" THEN TRUE
       ELSE Emit(ToJson([focus |-> Focus, main |-> "main",
               templates |-> <<<<"main", Src(prog)>>>> \o [j \in DOMAIN Partials |-> <<Partials[j][1], Src(Partials[j][2])>>],
               data |-> Combos[i][1], cfg |-> Combos[i][2],
               expect |-> [ok |-> (m.err = ""), err |-> m.err, out |-> m.out],
               measures |-> [outbytes |-> m.outbytes, peak |-> m.peak, prod |-> m.prod, iters |-> m.iters, nsvals |-> m.nsvals,
                             \* the outcome under every small context-depth limit ("" = rendered): the limit is a bound
                             \* on how often a context is extended or copied, exactly
                             depths |-> IF m.err # "" THEN <<>>
                                        ELSE [L \in 1..DepthProbe |-> Render(Tpls(prog), "main", Combos[i][1], [Combos[i][2] EXCEPT !.depthlimit = L]).err]]]) \o "\n")

\* sanity of the measures on the reference: what is returned never exceeds the peak of
\* the buffer chain, and no loop body runs more often than the product of the lengths
MeasuresConsistent ==
  \A d \in DataSets, c \in Cfgs :
     LET m == Measure(Tpls(prog), "main", d, c) IN
     (prog # <<>> /\ m.err = "") => (m.outbytes <= m.peak /\ m.iters <= m.prod)

\* C04 on the reference: with auto-escape on, no HTML-significant character reaches the
\* output except inside the entities the engine writes and the markup it produces itself
RECURSIVE DropAll(_, _)
DropAll(s, pats) == IF pats = <<>> THEN s ELSE DropAll(ReplaceAll(s, pats[1], ""), Tail(pats))
\* (upcase of an escaped text: HTML knows &LT; &GT; &AMP; too)
EngineMarkup == <<"&amp;", "&lt;", "&gt;", "&#39;", "&#34;", "&AMP;", "&LT;", "&GT;", "<br />", "<BR />">>
Clean(s) == LET r == DropAll(s, EngineMarkup) IN \A i \in 1..Len(r) : Ch(r, i) \notin HtmlSig
NoRawUnsafe ==
  \A d \in DataSets, c \in Cfgs :
     c.autoescape => LET r == Expect(d, c) IN (prog # <<>> /\ r.ok) => Clean(r.out)

\* inputs only (no expectation is computed)
ExportInputs ==
  prog # <<>> =>
    \A i \in DOMAIN Combos :
       Emit(ToJson([focus |-> Focus, main |-> "main",
               templates |-> <<<<"main", Src(prog)>>>> \o [j \in DOMAIN Partials |-> <<Partials[j][1], Src(Partials[j][2])>>],
               data |-> Combos[i][1], cfg |-> Combos[i][2],
               expect |-> [ok |-> TRUE, err |-> "", out |-> ""]]) \o "\n")

\* Properties of the reference semantics itself, checked on every program:
\* a render either succeeds or fails with a class of the error model
ErrorModel == {"", "LiquidTypeError", "LiquidSyntaxError", "UndefinedError", "UnknownFilterError",
               "LiquidValueError", "TemplateNotFoundError", "ContextDepthError", "DisabledTagError",
               "TemplateInheritanceError", "RequiredBlockError", "OutputStreamLimitError",
               "LoopIterationLimitError", "LocalNamespaceLimitError", "UNSPEC"}
Total == \A d \in DataSets, c \in Cfgs : Expect(d, c).err \in ErrorModel

\* C18 on the reference: whitespace-control markers, the default trim mode and
\* blank-block suppression change nothing but whitespace - the output with all
\* of them removed/off is the same once whitespace is disregarded ...
RECURSIVE NoWs(_)
NoWs(s) == IF s = "" THEN "" ELSE IF Ch(s, 1) \in WsSet THEN NoWs(SubSeq(s, 2, Len(s)))
           ELSE Ch(s, 1) \o NoWs(SubSeq(s, 2, Len(s)))
Plain(d, c) == Render(<<<<"main", AnnotTemplate(ClearWc(prog))>>>> \o AnnPartials, "main", d,
                      [c EXCEPT !.trim = "+", !.suppress = FALSE])
WsOnly == \A d \in DataSets, c \in Cfgs :
            LET r == Expect(d, c)
                p == Plain(d, c)
            IN (r.ok /\ p.ok) => NoWs(r.out) = NoWs(p.out)

\* C07 on the reference: a top-level `render` (isolated partial) contributes exactly
\* the text it produces when rendered alone with the same globals, and whatever
\* it does leaves the rest of the caller's output unchanged.
Without(p, i) == SubSeq(p, 1, i - 1) \o SubSeq(p, i + 1, Len(p))
RenderIsolated ==
  \A d \in DataSets, c \in Cfgs : \A i \in DOMAIN prog :
     prog[i].k = "render" =>
       LET full   == Render(Tpls(prog), "main", d, c)
           upto   == Render(Tpls(SubSeq(prog, 1, i)), "main", d, c)
           before == Render(Tpls(SubSeq(prog, 1, i - 1)), "main", d, c)
           solo   == Render(Tpls(<<prog[i]>>), "main", d, c)
           wo     == Render(Tpls(Without(prog, i)), "main", d, c)
           EvalsOwnArgs == prog[i].kwargs = <<>> /\ prog[i].mode = "none"
       IN (full.ok /\ upto.ok /\ before.ok /\ solo.ok /\ wo.ok) =>
            /\ EvalsOwnArgs => upto.out = before.out \o solo.out
            /\ SubSeq(full.out, Len(upto.out) + 1, Len(full.out)) = SubSeq(wo.out, Len(before.out) + 1, Len(wo.out))
=============================================================================
