------------------------------- MODULE LiquidSem -------------------------------
(***************************************************************************)
(* Reference ("what") semantics of Liquid templates as python-liquid2      *)
(* documents them: a compositional big-step interpreter over the AST of    *)
(* DESIGN.md appendix B.                                                   *)
(*                                                                         *)
(*   Eval(e, st)        value of an expression in render state st          *)
(*   Exec(nodes, st)    render state after executing a node sequence       *)
(*   Render(tpls, main, data, cfg)   result record [err, out, ...]         *)
(*                                                                         *)
(* The render state is one record:                                         *)
(*   out      text written so far            locals   assign/capture names *)
(*   scopes   block scopes, innermost last   layers   global namespaces in *)
(*   counters increment/decrement            priority order (args, matter, *)
(*   cycles   cycle groups                   template globals, env globals)*)
(*   stop     for-loop stop indexes          loops    enclosing forloops   *)
(*   err      "" or the error class          intr     "" | break | continue*)
(*   macros   macro definitions              cfg      configuration        *)
(*   tpls     the loader's templates         depth    context depth        *)
(*   used     names looked up in the global layers (observation, C11/C16)  *)
(***************************************************************************)
EXTENDS LiquidFilters

NoAlt == [k |-> "none"]

-----------------------------------------------------------------------------
(* name resolution: block scopes (innermost first), template locals, the    *)
(* global layers in priority order, then counters (context.py:83-88)        *)

RECURSIVE ScopeFind(_, _, _)
ScopeFind(scopes, i, name) ==
  IF i = 0 THEN [found |-> FALSE]
  ELSE IF HHas(scopes[i], name) THEN [found |-> TRUE, v |-> HGet(scopes[i], name)]
  ELSE ScopeFind(scopes, i - 1, name)

RECURSIVE LayerFind(_, _, _)
LayerFind(layers, i, name) ==
  IF i > Len(layers) THEN [found |-> FALSE]
  ELSE IF HHas(layers[i], name) THEN [found |-> TRUE, v |-> HGet(layers[i], name)]
  ELSE LayerFind(layers, i + 1, name)

Resolve(name, st) ==
  LET s == ScopeFind(st.scopes, Len(st.scopes), name) IN
  IF s.found THEN s.v
  ELSE IF HHas(st.locals, name) THEN HGet(st.locals, name)
  ELSE LET g == LayerFind(st.layers, 1, name) IN
       IF g.found THEN g.v
       \* built-in dynamic objects sit between the globals and the counters
       \* (render_context.md); their text is the clock's, written @now@ / @today@ here
       ELSE IF name \in {"now", "today"} THEN Str("@" \o name \o "@")
       ELSE IF HHas(st.counters, name) THEN HGet(st.counters, name)
       ELSE Undef

\* forloop drop
ForItem(f, key) ==
  IF key.t # "str" THEN Undef
  ELSE CASE key.v = "index"   -> IntV(f.index0 + 1)
         [] key.v = "index0"  -> IntV(f.index0)
         [] key.v = "rindex"  -> IntV(f.length - f.index0)
         [] key.v = "rindex0" -> IntV(f.length - f.index0 - 1)
         [] key.v = "first"   -> Bool(f.index0 = 0)
         [] key.v = "last"    -> Bool(f.index0 = f.length - 1)
         [] key.v = "length"  -> IntV(f.length)
         [] key.v = "name"    -> Str(f.name)
         [] key.v = "parentloop" -> f.parent
         [] OTHER -> Undef

\* tablerowloop drop (optional_tags.md)
RowItem(f, key) ==
  IF key.t # "str" THEN Undef
  ELSE CASE key.v = "index"   -> IntV(f.index0 + 1)
         [] key.v = "index0"  -> IntV(f.index0)
         [] key.v = "rindex"  -> IntV(f.length - f.index0)
         [] key.v = "rindex0" -> IntV(f.length - f.index0 - 1)
         [] key.v = "first"   -> Bool(f.index0 = 0)
         [] key.v = "last"    -> Bool(f.index0 = f.length - 1)
         [] key.v = "length"  -> IntV(f.length)
         [] key.v = "col"     -> IntV(f.col)
         [] key.v = "col0"    -> IntV(f.col - 1)
         [] key.v = "col_first" -> Bool(f.col = 1)
         [] key.v = "col_last"  -> Bool(f.col = f.ncols)
         [] key.v = "row"     -> IntV(f.row)
         [] OTHER -> Undef

\* `block.super` is resolved by EvalPath (it renders the parent definition)
GetItem(obj, key) == IF obj.t = "forloop" THEN ForItem(obj, key)
                     ELSE IF obj.t = "trloop" THEN RowItem(obj, key) ELSE Item(obj, key)

-----------------------------------------------------------------------------
(* undefined policies (undefined.py).  Under "strict" every use of an       *)
(* undefined raises; under "falsy" truthiness tests and equality are        *)
(* allowed.  `site` says how the value is being used.                       *)
UndefErr(v, st, site) ==
  /\ v.t = "undef"
  /\ \/ st.cfg.undef = "strict"
     \/ (st.cfg.undef = "falsy" /\ site \notin {"truthy", "eq"})

\* RenderContext.extend: one more namespace on the scope chain, refused when the
\* chain is already deeper than the limit (4 fixed maps + the template's own)
ScopeSize(st) == 4 + Len(st.scopes)
TooDeep(st) == ScopeSize(st) > st.cfg.depthlimit

-----------------------------------------------------------------------------
(* expressions *)
RECURSIVE Eval(_, _), EvalPath(_, _, _, _), EvalFilters(_, _, _), EvalArgs(_, _, _), EvalSeq(_, _, _), SuperText(_, _, _), SuperRun(_, _),
          Exec(_, _), ExecBlock(_, _)

\* string literals are template-author text: Markup under auto-escape
Lit(s, st) == IF st.cfg.autoescape THEN Safe(s) ELSE Str(s)

\* filters that take an arrow function (filter_reference.md: "lambda expressions")
LambdaFilters == {"map", "where", "reject", "find", "find_index", "has", "compact", "sort", "uniq", "sum", "sort_numeric", "sort_natural"}
PathBodyOnly == {"map", "compact", "sort", "uniq", "sum", "sort_numeric", "sort_natural"}     \* their arrow function must be a path

CmpRes(op, l, r, st) ==
  LET lt == LLt(l, r)
      gt == LLt(r, l)
      eq == LEq(l, r)
      bad == \/ UndefErr(l, st, IF op \in {"==", "!=", "<>"} THEN "eq" ELSE "cmp")
             \/ UndefErr(r, st, IF op \in {"==", "!=", "<>"} THEN "eq" ELSE "cmp")
  IN
  IF bad THEN Err("UndefinedError")
  ELSE CASE op = "==" -> Bool(eq)
         [] op \in {"!=", "<>"} -> Bool(~eq)
         [] op = "<"  -> IF lt = 2 THEN Err("LiquidTypeError") ELSE Bool(lt = 1)
         [] op = ">"  -> IF gt = 2 THEN Err("LiquidTypeError") ELSE Bool(gt = 1)
         [] op = "<=" -> IF eq THEN Bool(TRUE) ELSE IF lt = 2 THEN Err("LiquidTypeError") ELSE Bool(lt = 1)
         [] op = ">=" -> IF eq THEN Bool(TRUE) ELSE IF gt = 2 THEN Err("LiquidTypeError") ELSE Bool(gt = 1)

\* `l contains r`
ContainsRes(l, r, st) ==
  IF UndefErr(l, st, "contains") \/ UndefErr(r, st, "contains") THEN Err("UndefinedError")
  ELSE CASE l.t = "str"  -> IF r.t \in {"str", "int"} THEN Bool(HasSub(l.v, ToStr(r))) ELSE Err("UNSPEC")
         [] l.t = "arr"  -> IF r.t \in {"str", "int"} /\ \A i \in DOMAIN l.v : l.v[i].t \in {"str", "int", "nil"}
                            THEN Bool(\E i \in DOMAIN l.v : LEq(l.v[i], r)) ELSE Err("UNSPEC")
         [] l.t = "hash" -> IF r.t = "str" THEN Bool(HHas(l.h, r.v)) ELSE Err("UNSPEC")
         [] l.t = "range" -> IF r.t = "int" THEN Bool(r.n >= l.a /\ r.n <= l.b) ELSE Err("UNSPEC")
         [] l.t = "undef" -> Bool(FALSE)
         [] OTHER -> Err("LiquidTypeError")

TruthOf(v, st) == IF UndefErr(v, st, "truthy") THEN Err("UndefinedError") ELSE Bool(Truthy(v))

Eval(e, st) ==
  CASE e.k = "nil"   -> Nil
    [] e.k = "true"  -> Bool(TRUE)
    [] e.k = "false" -> Bool(FALSE)
    [] e.k = "empty" -> EmptyV
    [] e.k = "blank" -> BlankV
    [] e.k = "int"   -> IntV(e.n)
    [] e.k = "float" -> Dec(e.dm, e.de)              \* the number written: mantissa / 10^scale
    [] e.k = "str"   -> Lit(e.v, st)
    [] e.k = "var"   ->
         LET v == EvalPath(e.segs, 2, Resolve(e.segs[1].v, st), st) IN
         \* "touch" is not a policy of the library: it is the most eager reading of
         \* "uses a variable that does not exist" (C16) - fail at the lookup itself
         IF st.cfg.undef = "touch" /\ v.t = "undef" THEN Err("UndefinedError")
         ELSE IF ~IsErr(v) /\ Exotic(v) THEN Err("UNSPEC")
         ELSE v
    [] e.k = "range" ->
         LET a == Eval(e.a, st)
             b == Eval(e.b, st) IN
         IF IsErr(a) THEN a ELSE IF IsErr(b) THEN b
         ELSE IF UndefErr(a, st, "range") \/ UndefErr(b, st, "range") THEN Err("UndefinedError")
         ELSE IF a.t = "int" /\ b.t = "int" THEN Range(a.n, b.n)
         ELSE Err("UNSPEC")
    [] e.k = "arrlit" -> EvalSeq(e.items, 1, st)
    [] e.k = "tstr" ->
         LET parts == EvalSeq(e.parts, 1, st) IN
         IF IsErr(parts) THEN parts
         ELSE IF \E i \in DOMAIN parts.v : UndefErr(parts.v[i], st, "output") THEN Err("UndefinedError")
         ELSE IF \E i \in DOMAIN parts.v : Unprintable(parts.v[i]) THEN Err("UNSPEC")
         ELSE Str(JoinStr([i \in DOMAIN parts.v |-> OutStr(parts.v[i])], ""))
    [] e.k = "filtered" ->
         LET l == Eval(e.left, st) IN IF IsErr(l) THEN l ELSE EvalFilters(e.filters, l, st)
    [] e.k = "ternary" ->
         LET c == Eval(e.c, st) IN
         IF IsErr(c) THEN c
         ELSE IF IsErr(TruthOf(c, st)) THEN TruthOf(c, st)      \* the condition is tested: a use of an undefined
         ELSE LET rv == IF Truthy(c) THEN Eval(e.left, st)
                        ELSE IF e.alt.k = "none" THEN Nil
                        ELSE LET a == Eval(e.alt, st) IN
                             IF IsErr(a) THEN a ELSE EvalFilters(e.altf, a, st)
              IN IF IsErr(rv) THEN rv ELSE EvalFilters(e.tail, rv, st)
    [] e.k = "not" ->
         LET v == Eval(e.e, st) IN
         IF IsErr(v) THEN v ELSE
         LET t == TruthOf(v, st) IN IF IsErr(t) THEN t ELSE Bool(~t.b)
    [] e.k = "and" ->
         LET l == Eval(e.l, st) IN
         IF IsErr(l) THEN l ELSE
         LET tl == TruthOf(l, st) IN
         IF IsErr(tl) THEN tl
         ELSE IF ~tl.b THEN Bool(FALSE)
         ELSE LET r == Eval(e.r, st) IN IF IsErr(r) THEN r ELSE TruthOf(r, st)
    [] e.k = "or" ->
         LET l == Eval(e.l, st) IN
         IF IsErr(l) THEN l ELSE
         LET tl == TruthOf(l, st) IN
         IF IsErr(tl) THEN tl
         ELSE IF tl.b THEN Bool(TRUE)
         ELSE LET r == Eval(e.r, st) IN IF IsErr(r) THEN r ELSE TruthOf(r, st)
    [] e.k = "cmp" ->
         LET l == Eval(e.l, st)
             r == Eval(e.r, st) IN
         IF IsErr(l) THEN l ELSE IF IsErr(r) THEN r ELSE CmpRes(e.op, l, r, st)
    [] e.k = "contains" ->
         LET l == Eval(e.l, st)
             r == Eval(e.r, st) IN
         IF IsErr(l) THEN l ELSE IF IsErr(r) THEN r ELSE ContainsRes(l, r, st)
    [] e.k = "in" ->
         LET l == Eval(e.l, st)
             r == Eval(e.r, st) IN
         IF IsErr(l) THEN l ELSE IF IsErr(r) THEN r ELSE ContainsRes(r, l, st)
    [] e.k = "group" -> Eval(e.e, st)
    [] OTHER -> Err("UNSPEC")

\* evaluate a sequence of expressions into Arr (or the first error)
EvalSeq(es, i, st) ==
  IF i > Len(es) THEN Arr(<<>>)
  ELSE LET v == Eval(es[i], st) IN
       IF IsErr(v) THEN v
       ELSE LET rest == EvalSeq(es, i + 1, st) IN
            IF IsErr(rest) THEN rest ELSE Arr(<<v>> \o rest.v)

\* path segments: [t |-> "k", v |-> name] | [t |-> "i", i |-> index] | [t |-> "p", p |-> segs]
EvalPath(segs, i, obj, st) ==
  IF IsErr(obj) THEN obj
  ELSE IF obj.t \in {"float", "big", "odrop"} THEN Err("UNSPEC")
  ELSE IF i > Len(segs) THEN obj
  ELSE LET s == segs[i]
           key == CASE s.t = "k" -> Str(s.v)
                    [] s.t = "i" -> IntV(s.i)
                    [] s.t = "p" -> EvalPath(s.p, 2, Resolve(s.p[1].v, st), st)
       IN IF IsErr(key) THEN key
          \* a dotted index is syntax only where the environment allows it (the parser refuses it otherwise;
          \* the focus keeps such paths where they are reached first)
          ELSE IF s.t = "i" /\ "sh" \in DOMAIN s /\ ~("shorthand" \in DOMAIN st.cfg /\ st.cfg.shorthand) THEN Err("LiquidSyntaxError")
          ELSE IF UndefErr(key, st, "key") THEN Err("UndefinedError")
          ELSE IF obj.t = "blockdrop"
               THEN (IF key.t = "str" /\ key.v = "super"
                     THEN EvalPath(segs, i + 1, SuperText(obj, st, 8), st)
                     ELSE EvalPath(segs, i + 1, Undef, st))
          ELSE EvalPath(segs, i + 1, GetItem(obj, key), st)

EvalArgs(args, i, st) == EvalSeq(args, i, st)

\* filters that do not turn their left value into text
StructuralFilters == {"size", "first", "last", "default", "map", "where", "reverse", "concat", "compact", "uniq", "sum"}

\* the arrow function applied to every item: its parameter(s) are a block scope of
\* their own around each evaluation (LambdaExpression.map)
LamVals(lam, seq, st) ==
  [i \in DOMAIN seq |->
     LET sc == IF Len(lam.params) = 1 THEN <<<<lam.params[1], seq[i]>>>>
               ELSE <<<<lam.params[2], IntV(i - 1)>>, <<lam.params[1], seq[i]>>>>
     IN Eval(lam.body, [st EXCEPT !.scopes = Append(@, sc)])]

\* the items whose arrow-function result passes Test
Pick(seq, vals, Test(_)) ==
  LET sel == SelectSeq([i \in DOMAIN seq |-> [it |-> seq[i], r |-> vals[i]]], LAMBDA p : Test(p.r))
  IN [j \in DOMAIN sel |-> sel[j].it]

RECURSIVE FirstTruthy(_, _)
FirstTruthy(vals, i) == IF i > Len(vals) THEN 0 ELSE IF Truthy(vals[i]) THEN i ELSE FirstTruthy(vals, i + 1)

ApplyLambda(name, lam, left, st) ==
  LET seq  == SeqOf(left)
      vals == LamVals(lam, seq, st)
      idx  == FirstTruthy(vals, 1) IN
  IF name \in PathBodyOnly /\ lam.body.k # "var" THEN Err("UNSPEC")     \* rejected when the template is parsed
  ELSE IF TooDeep(st) THEN Err("ContextDepthError")
  ELSE IF \E i \in DOMAIN vals : IsErr(vals[i])
       THEN \* find / find_index / has stop at the first match: later items are not evaluated
            (IF name \in {"find", "find_index", "has"} /\ idx # 0 /\ \A i \in 1..idx : ~IsErr(vals[i])
             THEN (CASE name = "find" -> seq[idx] [] name = "find_index" -> IntV(idx - 1) [] name = "has" -> Bool(TRUE))
             ELSE vals[CHOOSE i \in DOMAIN vals : IsErr(vals[i]) /\ \A j \in 1..(i - 1) : ~IsErr(vals[j])])
  ELSE CASE name = "map" -> Arr([i \in DOMAIN vals |-> IF vals[i].t = "undef" THEN Nil ELSE vals[i]])
         [] name = "where"  -> Arr(Pick(seq, vals, LAMBDA r : Truthy(r)))
         [] name = "reject" -> Arr(Pick(seq, vals, LAMBDA r : ~Truthy(r)))
         [] name = "compact" -> Arr(Pick(seq, vals, LAMBDA r : r.t \notin {"nil", "undef"}))
         [] name = "find" -> IF idx = 0 THEN Nil ELSE seq[idx]
         [] name = "find_index" -> IF idx = 0 THEN Nil ELSE IntV(idx - 1)
         [] name = "has" -> Bool(idx # 0)
         [] name = "sort" -> IF AllScalars(vals) /\ Homogeneous(vals) THEN Arr(SortByKeys(seq, vals)) ELSE Err("UNSPEC")
         [] name = "sort_numeric" -> IF NumKeysOK(vals) THEN Arr(SortByKeysLt(NumKeyLt, seq, vals)) ELSE Err("UNSPEC")
         [] name = "sort_natural" -> IF NatKeysOK(vals) THEN Arr(SortByKeysLt(NatKeyLt, seq, vals)) ELSE Err("UNSPEC")
         [] name = "uniq" -> IF \A i \in DOMAIN vals : vals[i].t = "str" \/ (vals[i].t = "int" /\ vals[i].n \notin {0, 1})
                             THEN Arr(UniqBy(seq, vals, 1, <<>>)) ELSE Err("UNSPEC")
         [] name = "sum" -> IF \A i \in DOMAIN vals : vals[i].t \in {"int", "nil", "undef"}
                            THEN IntV(SumInts(SelectSeq(vals, LAMBDA v : v.t = "int"))) ELSE Err("UNSPEC")

\* filters whose left value may be an undefined without complaint under strict
DefaultLike == {"default"}

EvalFilters(fs, left, st) ==
  IF fs = <<>> THEN left
  ELSE LET f == fs[1] IN
       IF f.n \notin Known THEN Err("UNSPEC")            \* filter not (yet) in the reference
       ELSE IF \E j \in DOMAIN f.args : f.args[j].k = "lambda" THEN
            (IF f.n \notin LambdaFilters \/ Len(f.args) # 1 \/ ("kw" \in DOMAIN f /\ f.kw # <<>>) THEN Err("UNSPEC")
             ELSE IF UndefErr(left, st, "filter") THEN Err("UndefinedError")
             ELSE LET r == ApplyLambda(f.n, f.args[1], left, st) IN
                  IF IsErr(r) THEN r ELSE EvalFilters(Tail(fs), r, st))
       ELSE IF "kw" \in DOMAIN f /\ f.kw # <<>> THEN Err("UNSPEC")
       ELSE LET args == EvalArgs(f.args, 1, st) IN
            IF IsErr(args) THEN args
            ELSE IF UndefErr(left, st, "filter") /\ f.n \notin DefaultLike THEN Err("UndefinedError")
            ELSE IF \E j \in DOMAIN args.v : UndefErr(args.v[j], st, "filterarg") THEN Err("UndefinedError")
            ELSE IF /\ f.n \notin StructuralFilters
                    /\ (Unprintable(left) \/ \E j \in DOMAIN args.v : Unprintable(args.v[j]))
                 THEN Err("UNSPEC")
            ELSE LET r == Apply(f.n, left, args.v, st.cfg) IN
                 IF IsErr(r) THEN r ELSE EvalFilters(Tail(fs), r, st)

-----------------------------------------------------------------------------
(* whitespace control (docs/whitespace_control.md, Environment.trim) *)
EffTrim(m, cfg) == IF m = "" THEN cfg.trim ELSE m
TrimText(text, lm, rm, cfg) ==
  LET l == EffTrim(lm, cfg)
      r == EffTrim(rm, cfg)
      t1 == IF l = "-" THEN LStrip(text) ELSE IF l = "~" THEN LStripSet(text, NlSet) ELSE text
  IN IF r = "-" THEN RStrip(t1) ELSE IF r = "~" THEN RStripSet(t1, NlSet) ELSE t1

-----------------------------------------------------------------------------
(* blank blocks: a block is blank iff it holds only whitespace text, comments
   and tags that never write (whitespace_control.md) *)
RECURSIVE IsBlankNode(_), IsBlankSeq(_)
IsBlankSeq(ns) == \A i \in DOMAIN ns : IsBlankNode(ns[i])
IsBlankNode(n) ==
  CASE n.k = "text" -> n.v = "" \/ IsSpace(n.v)
    [] n.k \in {"comment", "assign", "capture", "break", "continue", "macro"} -> TRUE
    [] n.k = "raw" -> FALSE
    [] n.k \in {"if", "unless"} ->
         /\ IsBlankSeq(n.body)
         /\ \A i \in DOMAIN n.elifs : IsBlankSeq(n.elifs[i].body)
         /\ (n.else.has => IsBlankSeq(n.else.body))
    [] n.k = "case" ->
         /\ \A i \in DOMAIN n.whens : IsBlankSeq(n.whens[i].body)
         /\ (n.else.has => IsBlankSeq(n.else.body))
    [] n.k = "for" -> IsBlankSeq(n.body) /\ (n.else.has => IsBlankSeq(n.else.body))
    [] n.k \in {"with", "liquid"} -> IsBlankSeq(n.body)
    [] n.k \in {"include", "render", "call", "tablerow", "extends", "block"} -> FALSE
    [] OTHER -> FALSE

-----------------------------------------------------------------------------
(* statements *)
Fail(st, cls) == [st EXCEPT !.err = cls]


\* Resource consumption of the (unlimited) render, measured for C06 - DESIGN.md section 6:
\*   m.peak   largest number of UTF-8 bytes ever held along the active chain of output
\*            buffers (a capture buffer starts counting where its parent stands; text
\*            written into a suppressed blank block is discarded and not counted)
\*   m.prod   largest product of loop lengths along a nest of loop-like constructs
\*   m.iters  largest number of times one loop body ran within one outermost loop
MaxOf(a, b) == IF a >= b THEN a ELSE b
RECURSIVE ProdOf(_), SeqMax(_)
ProdOf(ns) == IF ns = <<>> THEN 1 ELSE ns[1] * ProdOf(Tail(ns))
SeqMax(ns) == IF ns = <<>> THEN 0 ELSE MaxOf(ns[1], SeqMax(Tail(ns)))
Write(st, s)  ==
  LET o2 == st.out \o s IN
  [st EXCEPT !.out = o2, !.m.peak = IF st.null THEN @ ELSE MaxOf(@, st.base + Bytes(o2))]
\* a fresh buffer stacked on the current one (capture, block.super, isolated contexts)
Fresh(st) == [st EXCEPT !.out = "", !.base = IF st.null THEN 0 ELSE st.base + Bytes(st.out), !.null = FALSE]
\* back in the enclosing buffer
Unstack(s1, st) == [s1 EXCEPT !.out = st.out, !.base = st.base, !.null = st.null]

\* entering / leaving a loop-like construct of `len` iterations; counting one body run
\*   m.nsvals the values held by the local namespaces along the chain of (isolated) contexts
\*            at the moment they were, by a rough size proxy, largest - the harness weighs
\*            them with sys.getsizeof
RECURSIVE VSize(_), VSizeSum(_)
VSize(v) == CASE v.t = "str" -> 50 + Len(v.v) [] v.t = "arr" -> 60 + 8 * Len(v.v) [] OTHER -> 28
VSizeSum(vs) == IF vs = <<>> THEN 0 ELSE VSize(vs[1]) + VSizeSum(Tail(vs))
LocalVals(st) == st.carryvals \o [i \in DOMAIN st.locals |-> st.locals[i][2]]
NoteLocals(st) == IF VSizeSum(LocalVals(st)) > VSizeSum(st.m.nsvals) THEN [st EXCEPT !.m.nsvals = LocalVals(st)] ELSE st

LoopEnter(st, len) ==
  LET lens == Append(st.lens, len) IN
  [st EXCEPT !.lens = lens,
             !.m.prod = MaxOf(@, ProdOf(lens)),
             !.lpcnt = IF Len(@) < Len(lens) THEN Append(@, 0) ELSE @]
LoopTick(st) == [st EXCEPT !.lpcnt = [@ EXCEPT ![Len(st.lens)] = @ + 1]]
LoopLeave(s1, st) ==
  IF st.lens = <<>>
  THEN [s1 EXCEPT !.lens = st.lens, !.m.iters = MaxOf(@, SeqMax(s1.lpcnt)), !.lpcnt = <<>>]
  ELSE [s1 EXCEPT !.lens = st.lens]

\* text written for a value at an output site
OutText(v, st) == IF st.cfg.autoescape THEN OutStrEsc(v) ELSE OutStr(v)

SeqGet(pairs, k, dflt) == IF HHas(pairs, k) THEN HGet(pairs, k) ELSE dflt

\* the `name` of a forloop / the stopindex key: "<identifier>-<iterable text>"
HasSuper(drop, st, fuel) ==
  LET stack == IF HHas(st.stacks, drop.name) THEN HGet(st.stacks, drop.name) ELSE <<>> IN
  ~(drop.level = 0 \/ drop.level >= Len(stack) \/ fuel = 0)
IsSuperOut(e) == /\ e.k = "filtered" /\ e.filters = <<>> /\ e.left.k = "var" /\ Len(e.left.segs) = 2
                 /\ e.left.segs[1].v = "block" /\ e.left.segs[2].t = "k" /\ e.left.segs[2].v = "super"
RECURSIVE ExecNode(_, _), ExecRow(_, _, _, _, _), ExecFor(_, _, _, _, _), ExecWhens(_, _, _, _, _), ExecElifs(_, _, _),
          ExecTemplate(_, _), IncludeIter(_, _, _, _, _, _), RenderIterT(_, _, _, _, _, _, _, _),
          ExecInclude(_, _), ExecRender(_, _), ExecCall(_, _), ExecExtends(_, _), ExecBlockTag(_, _)

\* a block body: suppressed (executed, output discarded) when blank
ExecBlock(body, st) ==
  IF st.cfg.suppress /\ IsBlankSeq(body)
  THEN LET s2 == Exec(body, [st EXCEPT !.null = TRUE]) IN [s2 EXCEPT !.out = st.out, !.null = st.null]
  ELSE Exec(body, st)

Exec(nodes, st) ==
  IF nodes = <<>> \/ st.err # "" \/ st.intr # "" THEN st
  ELSE Exec(Tail(nodes), ExecNode(nodes[1], st))

ExecElifs(elifs, els, st) ==
  IF elifs = <<>> THEN (IF els.has THEN ExecBlock(els.body, st) ELSE st)
  ELSE LET c == Eval(elifs[1].c, st) IN
       IF IsErr(c) THEN Fail(st, c.cls)
       ELSE LET t == TruthOf(c, st) IN
            IF IsErr(t) THEN Fail(st, t.cls)
            ELSE IF t.b THEN ExecBlock(elifs[1].body, st)
            ELSE ExecElifs(Tail(elifs), els, st)

\* every `when` whose list contains a value equal to the subject renders, in
\* order; matched = some when matched.  The subject expression `se` is evaluated
\* for each `when` (as in the reference implementation of Liquid), so a `when`
\* block that reassigns it changes what later `when`s compare with.
ExecWhens(whens, se, i, matched, st) ==
  IF st.err # "" \/ st.intr # "" THEN [st |-> st, matched |-> matched]
  ELSE IF i > Len(whens) THEN [st |-> st, matched |-> matched]
  ELSE LET subj == Eval(se, st)
           vals == EvalSeq(whens[i].es, 1, st) IN
       IF IsErr(subj) THEN [st |-> Fail(st, subj.cls), matched |-> matched]
       ELSE IF IsErr(vals) THEN [st |-> Fail(st, vals.cls), matched |-> matched]
       ELSE IF UndefErr(subj, st, "eq") \/ \E j \in DOMAIN vals.v : UndefErr(vals.v[j], st, "eq")
            THEN [st |-> Fail(st, "UndefinedError"), matched |-> matched]
       ELSE IF \E j \in DOMAIN vals.v : LEq(subj, vals.v[j])
            THEN ExecWhens(whens, se, i + 1, TRUE, ExecBlock(whens[i].body, st))
            ELSE ExecWhens(whens, se, i + 1, matched, st)

\* iterate: items = the slice to run, f = forloop record being advanced
ExecFor(n, items, i, f, st) ==
  IF i > Len(items) \/ st.err # "" THEN st
  ELSE LET fl == [f EXCEPT !.index0 = i - 1]
           sc == <<<<"forloop", fl>>, <<n.n, items[i]>>>>
           s1 == LoopTick([st EXCEPT !.scopes = Append(st.scopes, sc),
                                     !.loops = [@ EXCEPT ![Len(@)] = fl]])
           s2 == ExecBlock(n.body, s1)
           s3 == [s2 EXCEPT !.scopes = st.scopes, !.intr = ""]
       IN IF s2.err # "" THEN s3
          ELSE IF s2.intr = "break" THEN s3
          ELSE ExecFor(n, items, i + 1, f, s3)

\* tablerow: one <td> per item, a new <tr> after every `ncols` items
ExecRow(n, items, i, f, st) ==
  IF i > Len(items) \/ st.err # "" THEN st
  ELSE LET col == IF f.col = f.ncols THEN 1 ELSE f.col + 1
           row == IF f.col = f.ncols THEN f.row + 1 ELSE f.row
           fl == [f EXCEPT !.index0 = i - 1, !.col = col, !.row = row]
           sc == <<<<"tablerowloop", fl>>, <<n.n, items[i]>>>>
           s1 == LoopTick(Write([st EXCEPT !.scopes = Append(st.scopes, sc)], "<td class=\"col" \o ToString(col) \o "\">"))
           s2 == ExecBlock(n.body, s1)
           brk == s2.intr = "break"
           s3 == IF s2.err # "" THEN s2 ELSE Write([s2 EXCEPT !.intr = ""], "</td>")
           s4 == IF s3.err = "" /\ col = f.ncols /\ i < f.length
                 THEN Write(s3, "</tr>\n<tr class=\"row" \o ToString(row + 1) \o "\">") ELSE s3
           s5 == [s4 EXCEPT !.scopes = st.scopes]
       IN IF s5.err # "" \/ brk THEN s5 ELSE ExecRow(n, items, i + 1, fl, s5)

ExecNode(n, st) ==
  CASE n.k = "text" -> Write(st, TrimText(n.v, n.lm, n.rm, st.cfg))
    \* the markers inside `raw -%}` / `{%- endraw` trim the raw text itself
    \* (RawTag.inner_whitespace_control; follows impl, docs are silent)
    [] n.k = "raw"  -> Write(st, TrimText(n.v, n.wc[2], n.wc[3], st.cfg))
    [] n.k = "comment" -> st
    \* `{{ block.super }}` on its own: the parent block's render is part of this one (its loops count
    \* inside the loops around it; the text is rendered output, written as it is)
    [] n.k \in {"out", "echo"} /\ IsSuperOut(n.e) /\ Resolve("block", st).t = "blockdrop" /\ HasSuper(Resolve("block", st), st, 8) ->
         LET s1 == SuperRun(Resolve("block", st), st) IN
         IF s1.err # "" THEN Fail(st, s1.err)
         \* the parent definition runs in the context of the block that asked for it: what it assigns, counts and
         \* cycles stays (a second `block.super` renders the definition again, from where the first left off)
         ELSE Write([s1 EXCEPT !.out = st.out, !.base = st.base, !.null = st.null, !.scopes = st.scopes], s1.out)
    [] n.k \in {"out", "echo"} ->
         LET v == Eval(n.e, st) IN
         IF IsErr(v) THEN Fail(st, v.cls)
         ELSE IF UndefErr(v, st, "output") THEN Fail(st, "UndefinedError")
         ELSE IF Unprintable(v) THEN Fail(st, "UNSPEC")
         ELSE Write(st, OutText(v, st))
    [] n.k = "assign" ->
         LET v == Eval(n.e, st) IN
         IF IsErr(v) THEN Fail(st, v.cls) ELSE NoteLocals([st EXCEPT !.locals = HPut(@, n.n, v)])
    [] n.k = "capture" ->
         LET s1 == ExecBlock(n.body, Fresh(st)) IN
         IF s1.err # "" THEN Unstack(s1, st)
         ELSE NoteLocals([Unstack(s1, st) EXCEPT
                         !.locals = HPut(@, n.n, IF st.cfg.autoescape THEN Safe(s1.out) ELSE Str(s1.out))])
    [] n.k = "if" ->
         ExecElifs(<<[c |-> n.c, body |-> n.body]>> \o n.elifs, n.else, st)
    [] n.k = "unless" ->
         LET c == Eval(n.c, st) IN
         IF IsErr(c) THEN Fail(st, c.cls)
         ELSE LET t == TruthOf(c, st) IN
              IF IsErr(t) THEN Fail(st, t.cls)
              ELSE IF ~t.b THEN ExecBlock(n.body, st)
              ELSE ExecElifs(n.elifs, n.else, st)
    [] n.k = "case" ->
         LET subj == IF n.whens = <<>> THEN Nil ELSE Eval(n.e, st) IN
         IF IsErr(subj) THEN Fail(st, subj.cls)
         ELSE LET r == ExecWhens(n.whens, n.e, 1, FALSE, st) IN
              IF r.st.err # "" \/ r.st.intr # "" \/ r.matched \/ ~n.else.has THEN r.st
              ELSE ExecBlock(n.else.body, r.st)
    [] n.k = "for" ->
         LET itv == Eval(n.it, st) IN
         IF IsErr(itv) THEN Fail(st, itv.cls)
         ELSE IF UndefErr(itv, st, "iter") THEN Fail(st, "UndefinedError")
         ELSE IF itv.t = "str" THEN Fail(st, "UNSPEC")        \* iterating a string: UNSPECIFIED.md
         ELSE LET all == IterSeq(itv) IN
         IF ~all.ok THEN Fail(st, "LiquidTypeError")
         ELSE LET lim == IF n.limit.has THEN Eval(n.limit.e, st) ELSE Nil
                  off == IF n.offset.has /\ ~n.offset.cont THEN Eval(n.offset.e, st) ELSE Nil
              IN IF IsErr(lim) THEN Fail(st, lim.cls)
                 ELSE IF IsErr(off) THEN Fail(st, off.cls)
                 ELSE IF (n.limit.has /\ lim.t # "int") \/ (n.offset.has /\ ~n.offset.cont /\ off.t # "int")
                      THEN Fail(st, "UNSPEC")
                 ELSE IF (n.limit.has /\ lim.n < 0) \/ (n.offset.has /\ ~n.offset.cont /\ off.n < 0)
                      THEN Fail(st, "UNSPEC")
                 ELSE
                 LET key   == n.n \o "-" \o n.itsrc
                     total == Len(all.v)
                     o     == IF ~n.offset.has THEN 0
                              ELSE IF n.offset.cont THEN SeqGet(st.stop, key, 0)
                              ELSE off.n
                     avail == IF total - o > 0 THEN total - o ELSE 0
                     len   == IF n.limit.has /\ lim.n < avail THEN lim.n ELSE avail
                     slice == SubSeq(all.v, o + 1, o + len)
                     items == IF n.rev THEN Reverse(slice) ELSE slice
                     s0    == [st EXCEPT !.stop = HPut(@, key, o + len)]
                     parent == IF st.loops = <<>> THEN Undef ELSE st.loops[Len(st.loops)]
                     f     == [t |-> "forloop", name |-> key, length |-> len, index0 |-> 0, parent |-> parent]
                 IN IF len = 0
                    THEN (IF n.else.has THEN ExecBlock(n.else.body, s0) ELSE s0)
                    \* the loop's namespace is one more scope (RenderContext.loop -> extend)
                    ELSE IF TooDeep(s0) THEN Fail(s0, "ContextDepthError")
                    ELSE LET s1 == ExecFor(n, items, 1, f, LoopEnter([s0 EXCEPT !.loops = Append(@, f)], len))
                         IN LoopLeave([s1 EXCEPT !.loops = st.loops], st)
    [] n.k = "tablerow" ->
         LET itv == Eval(n.it, st) IN
         IF IsErr(itv) THEN Fail(st, itv.cls)
         ELSE IF UndefErr(itv, st, "iter") THEN Fail(st, "UndefinedError")
         ELSE IF itv.t = "str" THEN Fail(st, "UNSPEC")
         ELSE LET all == IterSeq(itv) IN
         IF ~all.ok THEN Fail(st, "LiquidTypeError")
         ELSE LET lim == IF n.limit.has THEN Eval(n.limit.e, st) ELSE Nil
                  off == IF n.offset.has /\ ~n.offset.cont THEN Eval(n.offset.e, st) ELSE Nil
                  cv  == IF n.cols.has THEN Eval(n.cols.e, st) ELSE Nil
              IN IF IsErr(lim) THEN Fail(st, lim.cls)
                 ELSE IF IsErr(off) THEN Fail(st, off.cls)
                 ELSE IF IsErr(cv) THEN Fail(st, cv.cls)
                 ELSE IF (n.limit.has /\ lim.t # "int") \/ (n.offset.has /\ ~n.offset.cont /\ off.t # "int") \/ (n.cols.has /\ cv.t # "int")
                      THEN Fail(st, "UNSPEC")
                 ELSE IF (n.limit.has /\ lim.n < 0) \/ (n.offset.has /\ ~n.offset.cont /\ off.n < 0) \/ (n.cols.has /\ cv.n <= 0)
                      THEN Fail(st, "UNSPEC")
                 ELSE
                 LET key   == n.n \o "-" \o n.itsrc
                     total == Len(all.v)
                     o     == IF ~n.offset.has THEN 0 ELSE IF n.offset.cont THEN SeqGet(st.stop, key, 0) ELSE off.n
                     avail == IF total - o > 0 THEN total - o ELSE 0
                     len   == IF n.limit.has /\ lim.n < avail THEN lim.n ELSE avail
                     items == SubSeq(all.v, o + 1, o + len)
                     ncols == IF n.cols.has THEN cv.n ELSE len
                     s0    == Write([st EXCEPT !.stop = HPut(@, key, o + len)], "<tr class=\"row1\">\n")
                     f     == [t |-> "trloop", length |-> len, index0 |-> 0, col |-> 0, row |-> 1, ncols |-> ncols]
                     s1    == IF len = 0 THEN s0 ELSE LoopLeave(ExecRow(n, items, 1, f, LoopEnter(s0, len)), s0)
                 IN IF TooDeep(s0) THEN Fail(s0, "ContextDepthError")       \* (extended also when there are no rows)
                    ELSE IF s1.err # "" THEN s1 ELSE Write(s1, "</tr>\n")
    [] n.k \in {"break", "continue"} -> [st EXCEPT !.intr = n.k]
    [] n.k = "incr" ->
         LET c == IF HHas(st.counters, n.n) THEN HGet(st.counters, n.n).n ELSE 0 IN
         Write([st EXCEPT !.counters = HPut(@, n.n, IntV(c + 1))], ToString(c))
    [] n.k = "decr" ->
         LET c == (IF HHas(st.counters, n.n) THEN HGet(st.counters, n.n).n ELSE 0) - 1 IN
         Write([st EXCEPT !.counters = HPut(@, n.n, IntV(c))], ToString(c))
    [] n.k = "cycle" ->
         LET key == n.key
             idx == SeqGet(st.cycles, key, 0)
             v   == Eval(n.items[(idx % Len(n.items)) + 1], st)
             s1  == [st EXCEPT !.cycles = HPut(@, key, idx + 1)]
         IN IF IsErr(v) THEN Fail(s1, v.cls)
            ELSE IF UndefErr(v, st, "output") THEN Fail(s1, "UndefinedError")
            ELSE IF Unprintable(v) THEN Fail(s1, "UNSPEC")
            ELSE Write(s1, OutText(v, st))
    [] n.k = "liquid" -> ExecBlock(n.body, st)
    [] n.k = "include" -> ExecInclude(n, st)
    [] n.k = "render" -> ExecRender(n, st)
    [] n.k = "macro" -> [st EXCEPT !.macros = HPut(@, n.n, [params |-> n.params, body |-> n.body])]
    [] n.k = "call" -> ExecCall(n, st)
    [] n.k = "extends" -> ExecExtends(n, st)
    [] n.k = "block" -> ExecBlockTag(n, st)
    [] n.k = "with" ->
         LET vals == EvalSeq([i \in DOMAIN n.args |-> n.args[i].e], 1, st) IN
         IF IsErr(vals) THEN Fail(st, vals.cls)
         ELSE IF TooDeep(st) THEN Fail(st, "ContextDepthError")
         ELSE LET sc == [i \in DOMAIN n.args |-> <<n.args[i].n, vals.v[i]>>]
                  s1 == ExecBlock(n.body, [st EXCEPT !.scopes = Append(@, sc)])
              IN [s1 EXCEPT !.scopes = st.scopes]
    [] OTHER -> Fail(st, "UNSPEC")          \* construct outside the reference semantics

\* every block tag of a template, outermost first, found through every body
RECURSIVE BlocksIn(_), ExtendsIn(_)
SubBodies(n) ==
  CASE n.k \in {"capture", "with", "macro", "block", "liquid"} -> <<n.body>>
    [] n.k \in {"if", "unless"} -> <<n.body>> \o [j \in DOMAIN n.elifs |-> n.elifs[j].body] \o (IF n.else.has THEN <<n.else.body>> ELSE <<>>)
    [] n.k = "case" -> [j \in DOMAIN n.whens |-> n.whens[j].body] \o (IF n.else.has THEN <<n.else.body>> ELSE <<>>)
    [] n.k = "for" -> <<n.body>> \o (IF n.else.has THEN <<n.else.body>> ELSE <<>>)
    [] OTHER -> <<>>
RECURSIVE FlatCat(_)
FlatCat(ss) == IF ss = <<>> THEN <<>> ELSE ss[1] \o FlatCat(Tail(ss))
BlocksIn(nodes) ==
  FlatCat([i \in DOMAIN nodes |->
     (IF nodes[i].k = "block" THEN <<nodes[i]>> ELSE <<>>)
     \o FlatCat([j \in DOMAIN SubBodies(nodes[i]) |-> BlocksIn(SubBodies(nodes[i])[j])])])
ExtendsIn(nodes) ==
  FlatCat([i \in DOMAIN nodes |->
     (IF nodes[i].k = "extends" THEN <<nodes[i]>> ELSE <<>>)
     \o FlatCat([j \in DOMAIN SubBodies(nodes[i]) |-> ExtendsIn(SubBodies(nodes[i])[j])])])

\* what the parser refuses when a template is loaded: an endblock that names
\* another block ("" = the template parses)
ParseErr(nodes) ==
  IF \E i \in DOMAIN BlocksIn(nodes) : BlocksIn(nodes)[i].endname \notin {"", BlocksIn(nodes)[i].n}
  THEN "TemplateInheritanceError" ELSE ""

-----------------------------------------------------------------------------
(* partial templates: include (shared scope), render and macro/call (isolated) *)

\* Template.render_with_context: the template's nodes in one more (empty) scope
ExecTemplate(nodes, st) ==
  IF TooDeep(st) THEN Fail(st, "ContextDepthError")
  ELSE LET s1 == Exec(nodes, [st EXCEPT !.scopes = Append(@, <<>>)])
       \* StopRender (raised by `extends` once the base has rendered) ends this template only
       IN [s1 EXCEPT !.scopes = st.scopes, !.intr = IF s1.intr = "stop" THEN "" ELSE s1.intr]

\* name under which `with`/`for` binds its value: the alias, else the template
\* name up to the first "."
RECURSIVE UpToDot(_)
UpToDot(nm) == IF nm = "" \/ Ch(nm, 1) = "." THEN "" ELSE Ch(nm, 1) \o UpToDot(SubSeq(nm, 2, Len(nm)))
BaseName(nm) == LET F[i \in 0..Len(nm)] == IF i = 0 THEN "" ELSE IF Ch(nm, i) = "/" THEN "" ELSE F[i - 1] \o Ch(nm, i)
                IN F[Len(nm)]
BindKey(n, tname) == IF n.alias # "" THEN n.alias ELSE UpToDot(BaseName(tname))

EvalKwargs(kwargs, st) ==
  LET vals == EvalSeq([i \in DOMAIN kwargs |-> kwargs[i].e], 1, st) IN
  IF IsErr(vals) THEN vals
  ELSE Hash([i \in DOMAIN kwargs |-> <<kwargs[i].n, vals.v[i]>>])

\* include ... for/with an array: the partial once per item, sharing everything
IncludeIter(nodes, key, items, i, nsIdx, st) ==
  IF i > Len(items) \/ st.err # "" \/ st.intr # "" THEN st
  ELSE LET s1 == [st EXCEPT !.scopes = [@ EXCEPT ![nsIdx] = HPut(@, key, items[i])]]
       IN IncludeIter(nodes, key, items, i + 1, nsIdx, ExecTemplate(nodes, LoopTick(s1)))

\* a context that sees only `ns` and the data the template was rendered with (RenderContext.copy):
\* not the arguments of an enclosing partial, not what an enclosing template assigned
Isolated(st, ns, disabled) ==
  [Fresh(st) EXCEPT !.locals = <<>>, !.carryvals = LocalVals(st), !.scopes = <<>>, !.layers = <<ns>> \o st.root,
             !.counters = <<>>, !.cycles = <<>>, !.stop = <<>>, !.loops = <<>>, !.macros = <<>>,
             !.disabled = disabled, !.cdepth = st.cdepth + 1, !.intr = "", !.stacks = <<>>]

\* back in the caller: only the text written (and a failure) comes back
Back(st, s2) ==
  IF s2.err # "" THEN Fail(st, s2.err)
  ELSE IF s2.intr # "" THEN Fail(st, "LiquidSyntaxError")       \* break/continue cannot leave a render
  ELSE Write([st EXCEPT !.m = s2.m, !.lpcnt = s2.lpcnt], s2.out)

\* render ... for: every item renders the partial in a context of its own
RenderIter(nodes, key, items, i, ns, disabled, st) == RenderIterT(nodes, key, items, i, ns, disabled, st, st.tname)
RenderIterT(nodes, key, items, i, ns, disabled, st, tn) ==
  IF i > Len(items) \/ st.err # "" THEN st
  ELSE LET fl == [t |-> "forloop", name |-> key, length |-> Len(items), index0 |-> i - 1, parent |-> Undef]
           ns2 == HPut(HPut(ns, "forloop", fl), key, items[i])
           s2 == ExecTemplate(nodes, [Isolated(LoopTick(st), ns2, disabled) EXCEPT !.tname = tn])
       IN RenderIterT(nodes, key, items, i + 1, ns, disabled, Back(st, s2), tn)

ExecInclude(n, st) ==
  IF "include" \in st.disabled THEN Fail(st, "DisabledTagError")
  ELSE LET nm == Eval(n.name, st) IN
  IF IsErr(nm) THEN Fail(st, nm.cls)
  ELSE IF UndefErr(nm, st, "output") THEN Fail(st, "UndefinedError")
  ELSE IF nm.t # "str" THEN Fail(st, "UNSPEC")
  ELSE IF ~HHas(st.tpls, nm.v) THEN Fail(st, "TemplateNotFoundError")
  ELSE IF ParseErr(HGet(st.tpls, nm.v)) # "" THEN Fail(st, ParseErr(HGet(st.tpls, nm.v)))
  ELSE LET nodes == HGet(st.tpls, nm.v)
           ns == EvalKwargs(n.kwargs, st) IN
  IF IsErr(ns) THEN Fail(st, ns.cls)
  ELSE IF TooDeep(st) THEN Fail(st, "ContextDepthError")
  ELSE LET s0 == [st EXCEPT !.scopes = Append(@, ns.h), !.tname = nm.v]
           idx == Len(s0.scopes)
           done == IF n.mode = "none" THEN ExecTemplate(nodes, s0)
                   ELSE LET val == Eval(n.var, s0) IN
                        IF IsErr(val) THEN Fail(s0, val.cls)
                        ELSE IF val.t \in {"arr", "range"}
                        THEN LET its == IF val.t = "arr" THEN val.v ELSE RangeSeq(val) IN
                             IF its = <<>> THEN s0
                             ELSE LoopLeave(IncludeIter(nodes, BindKey(n, nm.v), its, 1, idx, LoopEnter(s0, Len(its))), s0)
                        ELSE ExecTemplate(nodes, [s0 EXCEPT !.scopes = [@ EXCEPT ![idx] = HPut(@, BindKey(n, nm.v), val)]])
       IN [done EXCEPT !.scopes = st.scopes, !.tname = st.tname]

ExecRender(n, st) ==
  IF "render" \in st.disabled THEN Fail(st, "DisabledTagError")
  ELSE IF ~HHas(st.tpls, n.name.v) THEN Fail(st, "TemplateNotFoundError")
  ELSE IF ParseErr(HGet(st.tpls, n.name.v)) # "" THEN Fail(st, ParseErr(HGet(st.tpls, n.name.v)))
  ELSE LET nodes == HGet(st.tpls, n.name.v)
           ns == EvalKwargs(n.kwargs, st) IN
  IF IsErr(ns) THEN Fail(st, ns.cls)
  ELSE IF st.cdepth > st.cfg.depthlimit THEN Fail(st, "ContextDepthError")
  ELSE IF n.mode = "none" THEN Back(st, ExecTemplate(nodes, [Isolated(st, ns.h, {"include"}) EXCEPT !.tname = n.name.v]))
  ELSE LET val == Eval(n.var, st) IN
       IF IsErr(val) THEN Fail(st, val.cls)
       ELSE IF n.mode = "for" /\ val.t \in {"arr", "range"}
       THEN LET its == IF val.t = "arr" THEN val.v ELSE RangeSeq(val) IN
            IF its = <<>> THEN st
            ELSE LoopLeave(RenderIterT(nodes, BindKey(n, n.name.v), its, 1, ns.h, {"include"}, LoopEnter(st, Len(its)), n.name.v), st)
       ELSE Back(st, ExecTemplate(nodes, [Isolated(st, HPut(ns.h, BindKey(n, n.name.v), val), {"include"}) EXCEPT !.tname = n.name.v]))

\* bind call arguments to macro parameters (CallNode.macro_args): positional
\* first, keywords may override, the rest go to `args` / `kwargs`
MacroParam(m, i, call, st) ==
  LET pn == m.params[i].n
      kw == SelectSeq(call.kwargs, LAMBDA a : a.n = pn) IN
  IF kw # <<>> THEN Eval(kw[Len(kw)].e, st)
  ELSE IF i <= Len(call.args) THEN Eval(call.args[i], st)
  ELSE IF m.params[i].has THEN Eval(m.params[i].e, st)
  ELSE Undef

ExecCall(n, st) ==
  IF ~HHas(st.macros, n.n)
  THEN (IF st.cfg.undef \in {"strict", "falsy", "touch"} THEN Fail(st, "UndefinedError") ELSE st)
  ELSE LET m == HGet(st.macros, n.n)
           np == Len(m.params)
           pvals == [i \in 1..np |-> MacroParam(m, i, n, st)]
           extra == EvalSeq(SubSeq(n.args, np + 1, Len(n.args)), 1, st)
           xkw == SelectSeq(n.kwargs, LAMBDA a : \A i \in 1..np : m.params[i].n # a.n)
           xkwv == EvalKwargs(xkw, st) IN
  IF \E i \in 1..np : IsErr(pvals[i]) THEN Fail(st, pvals[CHOOSE i \in 1..np : IsErr(pvals[i])].cls)
  ELSE IF IsErr(extra) THEN Fail(st, extra.cls)
  ELSE IF IsErr(xkwv) THEN Fail(st, xkwv.cls)
  ELSE IF st.cdepth > st.cfg.depthlimit THEN Fail(st, "ContextDepthError")
  ELSE LET ns == <<<<"args", extra>>, <<"kwargs", xkwv>>>> \o [i \in 1..np |-> <<m.params[i].n, pvals[i]>>]
           s2 == ExecBlock(m.body, Isolated(st, ns, {"include", "block"}))
       IN IF s2.err # "" THEN Fail(st, s2.err)
          ELSE [Write([st EXCEPT !.m = s2.m, !.lpcnt = s2.lpcnt], s2.out) EXCEPT !.intr = s2.intr]

-----------------------------------------------------------------------------
(* template inheritance (tag_reference.md: extends / block; extends_tag.py) *)

\* push the definitions of one template below those of the more derived ones
PushBlocks(stacks, blocks, i) ==
  IF i > Len(blocks) THEN stacks
  ELSE LET b == blocks[i]
           old == IF HHas(stacks, b.n) THEN HGet(stacks, b.n) ELSE <<>>
       IN HPut(stacks, b.n, Append(old, [body |-> b.body, required |-> b.required]))
RECURSIVE PushAll(_, _, _)
PushAll(stacks, blocks, i) == IF i > Len(blocks) THEN stacks ELSE PushAll(PushBlocks(stacks, blocks, i), blocks, i + 1)

\* walk the chain from template `nm`; result [err, stacks, base]
RECURSIVE BuildStacks(_, _, _, _)
BuildStacks(nm, seen, stacks, tpls) ==
  LET nodes == HGet(tpls, nm)
      blocks == BlocksIn(nodes)
      exts == ExtendsIn(nodes)
      names == [i \in DOMAIN blocks |-> blocks[i].n] IN
  IF ParseErr(nodes) # "" THEN [err |-> ParseErr(nodes), stacks |-> stacks, base |-> nm]
  ELSE IF Len(exts) > 1 THEN [err |-> "TemplateInheritanceError", stacks |-> stacks, base |-> nm]
  ELSE IF \E i, j \in DOMAIN names : i # j /\ names[i] = names[j]
       THEN [err |-> "TemplateInheritanceError", stacks |-> stacks, base |-> nm]
  ELSE LET st2 == PushAll(stacks, blocks, 1) IN
       IF exts = <<>> THEN [err |-> "", stacks |-> st2, base |-> nm]
       ELSE LET parent == exts[1].name IN
            IF parent \in seen THEN [err |-> "TemplateInheritanceError", stacks |-> st2, base |-> nm]
            ELSE IF ~HHas(tpls, parent) THEN [err |-> "TemplateNotFoundError", stacks |-> st2, base |-> nm]
            ELSE BuildStacks(parent, seen \cup {parent}, st2, tpls)

\* `extends`: resolve the chain, render the root parent with the block stacks in
\* force, then stop rendering the current template.  The stacks belong to this
\* chain only: whatever was in force before (an enclosing chain, when a partial
\* that extends is included from inside a base template) is in force again after.
ExecExtends(n, st) ==
  IF "extends" \in st.disabled THEN Fail(st, "DisabledTagError")
  ELSE LET b == BuildStacks(st.tname, {}, <<>>, st.tpls) IN
  IF b.err # "" THEN Fail(st, b.err)
  ELSE LET s1 == ExecTemplate(HGet(st.tpls, b.base), [st EXCEPT !.stacks = b.stacks, !.tname = b.base])
       IN IF s1.err # "" THEN s1
          ELSE [s1 EXCEPT !.stacks = st.stacks, !.tname = st.tname, !.intr = "stop"]

BlockDrop(name, level) == [t |-> "blockdrop", name |-> name, level |-> level]

\* `block.super`: the next less-derived definition of the block, rendered with a `block` of its
\* own (fuel bounds the recursion for TLC).  SuperRun is the render as a state: the loops it runs
\* nest inside the loops around the `block.super` that asked for it (C06), and its measures survive
SuperRun(drop, st) ==
  LET def == HGet(st.stacks, drop.name)[drop.level + 1]
      sc == <<<<"block", BlockDrop(drop.name, drop.level + 1)>>>>
  IN ExecBlock(def.body, [Fresh(st) EXCEPT !.scopes = Append(@, sc)])
SuperText(drop, st, fuel) ==
  IF ~HasSuper(drop, st, fuel) THEN Undef
  ELSE LET s1 == SuperRun(drop, st)
       IN IF s1.err # "" THEN Err(s1.err)
          ELSE IF st.cfg.autoescape THEN Safe(s1.out) ELSE Str(s1.out)

\* a block tag: the most derived definition in force, or - when the template is
\* rendered on its own - its own body
ExecBlockTag(n, st) ==
  IF "block" \in st.disabled THEN Fail(st, "DisabledTagError")
  ELSE LET stack == IF HHas(st.stacks, n.n) THEN HGet(st.stacks, n.n) ELSE <<>> IN
  IF stack = <<>> THEN
       (IF n.required THEN Fail(st, "RequiredBlockError")
        ELSE IF TooDeep(st) THEN Fail(st, "ContextDepthError")
        ELSE LET s1 == ExecBlock(n.body, [st EXCEPT !.scopes = Append(@, <<<<"block", BlockDrop(n.n, 0)>>>>)])
             IN [s1 EXCEPT !.scopes = st.scopes])
  ELSE IF stack[1].required THEN Fail(st, "RequiredBlockError")
  ELSE IF st.cdepth > st.cfg.depthlimit THEN Fail(st, "ContextDepthError")
  ELSE LET s1 == ExecBlock(stack[1].body, [st EXCEPT !.scopes = Append(@, <<<<"block", BlockDrop(n.n, 1)>>>>),
                                                      !.cdepth = st.cdepth + 1])
       IN [s1 EXCEPT !.scopes = st.scopes, !.cdepth = st.cdepth]

-----------------------------------------------------------------------------
InitState(tpls, data, cfg) ==
  [out |-> "", locals |-> <<>>, scopes |-> <<>>, layers |-> data, root |-> data, counters |-> <<>>,
   cycles |-> <<>>, stop |-> <<>>, loops |-> <<>>, err |-> "", intr |-> "",
   cfg |-> cfg, tpls |-> tpls, macros |-> <<>>, disabled |-> {}, cdepth |-> 0,
   stacks |-> <<>>, tname |-> "", base |-> 0, null |-> FALSE, lens |-> <<>>, lpcnt |-> <<>>,
   m |-> [peak |-> 0, prod |-> 0, iters |-> 0, nsvals |-> <<>>], carryvals |-> <<>>]

\* data: sequence of global layers in priority order, each an ordered hash
Render(tpls, main, data, cfg) ==
  LET s == IF ParseErr(HGet(tpls, main)) # "" THEN Fail(InitState(tpls, data, cfg), ParseErr(HGet(tpls, main)))
           ELSE ExecTemplate(HGet(tpls, main), [InitState(tpls, data, cfg) EXCEPT !.tname = main]) IN
  IF s.err # "" THEN [ok |-> FALSE, err |-> s.err, out |-> ""]
  ELSE IF s.intr # "" THEN [ok |-> FALSE, err |-> "LiquidSyntaxError", out |-> ""]
  ELSE [ok |-> TRUE, err |-> "", out |-> s.out]

\* the same with the consumption measures of the run (C06)
Measure(tpls, main, data, cfg) ==
  LET s == ExecTemplate(HGet(tpls, main), [InitState(tpls, data, cfg) EXCEPT !.tname = main]) IN
  [err |-> IF s.err # "" THEN s.err ELSE IF s.intr # "" THEN "LiquidSyntaxError" ELSE "",
   out |-> s.out, outbytes |-> Bytes(s.out), peak |-> s.m.peak, prod |-> s.m.prod, iters |-> s.m.iters, nsvals |-> s.m.nsvals]
=============================================================================
