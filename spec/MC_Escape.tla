-------------------------------- MODULE MC_Escape --------------------------------
(* Focus "escape" (C04): with auto-escape on, data strings saturated with            *)
(* HTML-significant characters (also percent- and entity-encoded, nested in arrays   *)
(* and hashes, used as filter arguments and separators) flow through filter chains,  *)
(* captures, partials, macros, loops, cycles, template strings and ternaries.        *)
(* Template literals contain no significant character and `safe` is not used, so     *)
(* whatever significant character reaches the output unescaped came from the data.   *)
EXTENDS LiquidGen, LiquidAst

CONSTANT Variant   \* "model" (filters of the reference: exact output predicted) | "all" (every filter: inputs only)

Evil == "<b a='1'&!c=\"2\">"
MCData == { << <<<<"x", Str(Evil)>>, <<"p", Str("%3Cb%3E%26%22")>>, <<"e", Str("&lt;b&gt;&amp;")>>,
                 <<"arr", Arr(<<Str(Evil), Str("ok"), Str("<i>")>>)>>, <<"h", Hash(<< <<"k", Str(Evil)>> >>)>>,
                 <<"hs", Arr(<<Hash(<< <<"k", Str("<u>")>> >>), Hash(<< <<"k", Str("&v")>> >>)>>)>>, <<"n", IntV(3)>>,
                 \* one significant character each, on its own
                 <<"q", Str("it's")>>, <<"dq", Str("say \"x\"")>>, <<"lt", Str("a<b")>>, <<"gt", Str("a>b")>>, <<"amp", Str("a&!b")>>>>,
               <<>>, <<>>, <<>> >> }
MCCfgs == {Cfg("+", TRUE, TRUE, "default")}
MCPartials == << <<"p", <<NText("[p:"), NOut(P(V("v"))), NOut(P(V("x"))), NText("]")>>>> >>

X == V("x")
Singles == {V("q"), V("dq"), V("lt"), V("gt"), V("amp")}
Srcs == {X, V("p"), V("e"), VP("h", "k"), Path(<<Key("arr"), Idx(0)>>)} \cup Singles
ModelF0 == {"upcase", "downcase", "capitalize", "strip", "lstrip", "rstrip", "escape", "strip_newlines", "newline_to_br", "size", "first", "last"}
ModelF1 == {"append", "prepend", "replace", "remove", "split", "default", "truncate"}
AllF0 == ModelF0 \cup {"escape_once", "strip_html", "url_encode", "url_decode", "base64_encode", "base64_decode", "json", "reverse",
                       "sort", "uniq", "compact", "t", "gettext", "date", "truncatewords", "abs", "sum", "join"}
AllF1 == ModelF1 \cup {"replace_first", "replace_last", "remove_first", "remove_last", "slice", "truncatewords", "concat", "map", "where",
                       "join", "plus", "date", "pgettext", "ngettext", "t", "default"}
F0 == IF Variant = "model" THEN ModelF0 ELSE AllF0
F1 == IF Variant = "model" THEN ModelF1 ELSE AllF1
Args == {X, S("lit"), V("e"), I(2)}

Chains1 == {<<Fl(f, <<>>)>> : f \in F0} \cup {<<Fl(f, <<a>>)>> : f \in F1, a \in Args}
Chains2 == {c1 \o c2 : c1 \in Chains1, c2 \in {<<Fl(f, <<>>)>> : f \in F0} \cup {<<Fl(f, <<X>>)>> : f \in F1}}
Exprs == {F(s, c) : s \in Srcs, c \in Chains1} \cup {F(X, c) : c \in Chains2} \cup {F(V("p"), c) : c \in Chains2}
         \cup {P(s) : s \in Srcs} \cup {P(ArrLit(<<s, S("-"), s>>)) : s \in Singles} \cup {P(TStr(<<S("a"), P(s)>>, "'")) : s \in Singles}
         \cup {F(V("arr"), <<Fl("join", <<a>>)>>) : a \in {X, S("-"), V("e")}} \cup {F(V("arr"), <<Fl("join", <<>>)>>), P(V("arr")), P(V("h"))}
         \cup {F(V("arr"), <<Fl("join", <<X>>), Fl(f, <<>>)>>) : f \in F0}
         \cup {F(V("hs"), <<Fl("map", <<S("k")>>), Fl("join", <<a>>)>>) : a \in {X, S(",")}}
         \cup {F(S("lit"), <<Fl("append", <<X>>)>>), F(S("lit"), <<Fl("replace", <<S("i"), X>>)>>), F(S("lit"), <<Fl("prepend", <<X>>), Fl("upcase", <<>>)>>),
               P(TStr(<<S("pre"), P(X), S("post")>>, "\"")), F(TStr(<<P(X)>>, "'"), <<Fl("upcase", <<>>)>>),
               Tern(F(X, <<>>), V("n"), V("e"), <<Fl("upcase", <<>>)>>, <<Fl("append", <<X>>)>>)}
         \* an author's literal on one side of an inline if, data on the other; data appended after either
         \cup {Tern(F(S("lit"), <<>>), c, a, <<>>, <<>>) : c \in {V("n"), V("nosuch")}, a \in {X, V("q"), V("amp")}}
         \cup {Tern(F(a, <<>>), c, S("lit"), <<>>, <<>>) : c \in {V("n"), V("nosuch")}, a \in {X, V("q")}}
         \cup {Tern(F(S("lit"), <<>>), c, NoAltE, <<>>, <<Fl("append", <<X>>)>>) : c \in {V("n"), V("nosuch")}}
         \* every filter that takes an argument applied to an author's literal (safe text) with data as the argument
         \cup {F(S("l-i-t"), <<Fl(f, <<a>>)>>) : f \in F1, a \in {X, V("q")}}
         \cup {F(S("l-i-t"), <<Fl(f, <<S("-"), a>>)>>) : f \in F1 \cap {"replace", "replace_first", "replace_last"}, a \in {X, V("q"), V("amp")}}
         \cup {F(S("l-i-t"), <<Fl(f, <<S(""), a>>)>>) : f \in F1 \cap {"replace", "replace_first", "replace_last"}, a \in {X}}

Tags == {Capture("c", <<NText("cap:"), NOut(P(X))>>), NOut(P(V("c"))), NOut(F(V("c"), <<Fl("append", <<X>>)>>)), NOut(F(V("c"), <<Fl("upcase", <<>>)>>)),
         NOut(F(V("c"), <<Fl("replace", <<S(":"), X>>)>>)), NOut(F(V("c"), <<Fl("replace_first", <<S(":"), X>>)>>)), NOut(F(V("c"), <<Fl("replace_last", <<S(":"), X>>)>>)),
         Assign("c", F(X, <<Fl("append", <<S("!")>>)>>)), Assign("c", F(X, <<Fl("escape", <<>>)>>)),
         Include(S("p"), "none", NilE, "", <<WArg("v", X)>>), RenderT(S("p"), "with", X, "v", <<>>), Include(S("p"), "for", V("arr"), "v", <<>>),
         Macro("m", <<Param("a")>>, <<NText("m:"), NOut(P(V("a")))>>), Call("m", <<X>>, <<>>),
         For("i", V("arr"), "arr", NoOpt, NoOpt, FALSE, <<NOut(P(V("i"))), Cycle("", <<X, S("lit")>>, "|x,lit")>>, NoElse),
         Echo(P(X)), Cycle("", <<X, V("e")>>, "|x,e"), Case(X, <<When(<<X>>, <<NOut(P(X))>>)>>, NoElse),
         With(<<WArg("w", X)>>, <<NOut(F(V("w"), <<Fl("downcase", <<>>)>>))>>)}

MCPoolAt(i) == IF i = 1 THEN {NOut(e) : e \in Exprs} \cup Tags ELSE Tags
=============================================================================
