------------------------------- MODULE LiquidMsg -------------------------------
(***************************************************************************)
(* Message extraction against catalog lookups (C15).                        *)
(*                                                                         *)
(* A template is a sequence of items, one per line (some span lines):       *)
(* translate tags (context / count / plural block), the translation         *)
(* filters t, gettext, ngettext, pgettext, npgettext with literal and       *)
(* non-literal operands at the sites where an expression may stand          *)
(* (output, echo, assign, both branches of an inline if, inside for / if    *)
(* bodies, inside a liquid tag, before or after other filters), comments    *)
(* of every kind, and fillers.                                              *)
(*                                                                         *)
(* Calls(item, n): what the render asks of the catalog - function family,   *)
(* context, message id, plural id - when the count variable is n.           *)
(* Extracted(prog): what extraction reports - line, family, ids, comments.  *)
(* TLC checks Covered on the specification: every lookup whose identifiers  *)
(* are literals of the template is reported with the same family and ids    *)
(* on the line of its tag or expression; and exports both for the library.  *)
(***************************************************************************)
EXTENDS Integers, Sequences, FiniteSets, TLC, Json, IOUtils

CONSTANTS MaxTop, Focus, Variant    \* Variant: "tags" | "filters" | "comments" | "mixed" | "breaks" | "markers"

\* the line separator of the template text: every separator str.splitlines() knows starts a new line
Seps == <<"\n", "\r\n", "\r", "\f">>
VARIABLE sep

VARIABLE prog
vars == <<prog, sep>>

\* ---- items ---------------------------------------------------------------------------
\* operand kinds: "none" | "lit" | "var" ; count: "none" | "0" | "1" | "2" | "var"
Item(k, f, left, ctx, plural, count, site, c) ==
  [k |-> k, f |-> f, left |-> left, ctx |-> ctx, plural |-> plural, count |-> count, site |-> site, c |-> c]
Tag(ctx, plural, count, text) == Item("tag", "translate", text, ctx, plural, count, "tag", "")
\* a translate tag whose message variable carries whitespace-control markers (c: side and marker); the message id,
\* the lookup and the printed text are those of the unmarked tag - a marker inside a message is not whitespace control of
\* the page (C18)
TagM(ctx, plural, count, text, mk) == Item("tag", "translate", text, ctx, plural, count, "tag", mk)
Marks == {"l-", "r-", "b-", "l~", "r~", "b~", "l+"}
LM(c) == IF c \in {"l-", "b-"} THEN "-" ELSE IF c \in {"l~", "b~"} THEN "~" ELSE IF c = "l+" THEN "+" ELSE ""
RM(c) == IF c \in {"r-", "b-"} THEN "-" ELSE IF c \in {"r~", "b~"} THEN "~" ELSE ""
Flt(f, left, ctx, plural, count, site) == Item("filter", f, left, ctx, plural, count, site, "")
Comment(kind, text) == Item("comment", "", "", "none", "none", "none", kind, text)
Filler(kind) == Item("filler", "", "", "none", "none", "none", kind, "")

MsgText == "Hello"         PluralText == "Hellos"       CtxText == "greeting"
TagTexts == {"Hello, World!", "Hello, %(you)s!", "Dear %(you)s,"}      \* the last one takes `you` from the data (m)

\* ---- source text -------------------------------------------------------------------------
Lit(s) == "'" \o s \o "'"
Opnd(kind, lit, var) == IF kind = "lit" THEN Lit(lit) ELSE var
CountSrc(c) == IF c = "var" THEN "n" ELSE c

FilterExpr(it) ==
  LET left == Opnd(it.left, MsgText, "m") IN
  CASE it.f = "gettext"   -> left \o " | gettext"
    [] it.f = "pgettext"  -> left \o " | pgettext: " \o Opnd(it.ctx, CtxText, "cx")
    [] it.f = "ngettext"  -> left \o " | ngettext: " \o Opnd(it.plural, PluralText, "pl") \o ", " \o CountSrc(it.count)
    [] it.f = "npgettext" -> left \o " | npgettext: " \o Opnd(it.ctx, CtxText, "cx") \o ", " \o Opnd(it.plural, PluralText, "pl") \o ", " \o CountSrc(it.count)
    [] it.f = "t" ->
         LET args == (IF it.ctx = "none" THEN <<>> ELSE <<Opnd(it.ctx, CtxText, "cx")>>)
                     \o (IF it.plural = "none" THEN <<>> ELSE <<"plural: " \o Opnd(it.plural, PluralText, "pl")>>)
                     \o (IF it.count = "none" THEN <<>> ELSE <<"count: " \o CountSrc(it.count)>>)
         IN left \o " | t" \o (IF args = <<>> THEN "" ELSE ": " \o args[1] \o (IF Len(args) > 1 THEN ", " \o args[2] ELSE "")
                                                           \o (IF Len(args) > 2 THEN ", " \o args[3] ELSE ""))

\* lines of an item, and the (1-based) offset of the line that carries the message
ItemLines(it) ==
  CASE it.k = "tag" ->
         LET args == (IF it.ctx = "none" THEN <<>> ELSE <<"context: " \o Opnd(it.ctx, CtxText, "cx")>>)
                     \o (IF it.count = "none" THEN <<>> ELSE <<"count: " \o CountSrc(it.count)>>)
                     \o (IF it.left = "Hello, %(you)s!" THEN <<"you: 'Sue'">> ELSE IF it.left = "Dear %(you)s," THEN <<"you: m">> ELSE <<>>)
             head == "{% translate" \o (IF args = <<>> THEN "" ELSE " " \o args[1] \o (IF Len(args) > 1 THEN ", " \o args[2] ELSE "")
                                                                   \o (IF Len(args) > 2 THEN ", " \o args[3] ELSE "")) \o " %}"
             you == "{{" \o LM(it.c) \o " you " \o RM(it.c) \o "}}"
             body == IF it.left = "Hello, %(you)s!" THEN "Hello, " \o you \o "!" ELSE IF it.left = "Dear %(you)s," THEN "Dear " \o you \o "," ELSE it.left
             pbody == IF it.left = "Hello, %(you)s!" THEN "Hello, " \o you \o "s!" ELSE IF it.left = "Dear %(you)s," THEN "Dear " \o you \o "s," ELSE "Hello, Worlds!"
         IN IF it.plural = "lit" THEN <<head, "  " \o body, "{% plural %}", "  " \o pbody, "{% endtranslate %}">>
            ELSE <<head \o body \o "{% endtranslate %}">>
    [] it.k = "filter" ->
         LET e == FilterExpr(it) IN
         (CASE it.site = "output"       -> <<"{{ " \o e \o " }}">>
            [] it.site = "echo"         -> <<"{% echo " \o e \o " %}">>
            [] it.site = "assign"       -> <<"{% assign a = " \o e \o " %}{{ a }}">>
            [] it.site = "ternary-left" -> <<"{{ " \o e \o " if yes else 'no' }}">>
            [] it.site = "ternary-alt"  -> <<"{{ 'no' if no else " \o e \o " }}">>
            [] it.site = "then-filter"  -> <<"{{ " \o e \o " | upcase }}">>
            [] it.site = "after-filter" -> <<"{{ " \o Opnd(it.left, MsgText, "m") \o " | upcase | " \o SubSeq(e, Len(Opnd(it.left, MsgText, "m")) + 4, Len(e)) \o " }}">>
            [] it.site = "for-body"     -> <<"{% for i in (1..2) %}", "{{ " \o e \o " }}", "{% endfor %}">>
            [] it.site = "if-body"      -> <<"{% if yes %}", "{{ " \o e \o " }}", "{% else %}x{% endif %}">>
            [] it.site = "case-when"    -> <<"{% case 1 %}{% when 1 %}", "{{ " \o e \o " }}", "{% endcase %}">>
            [] it.site = "liquid"       -> <<"{% liquid", "  assign z = 1", "  echo " \o e, "%}">>
            [] it.site = "filter-arg"   -> <<"{{ 'x' | append: m }}{{ " \o e \o " }}">>
            \* bodies that print nothing themselves
            [] it.site = "if-assign"    -> <<"{% if yes %}", "{% assign a = " \o e \o " %}", "{% endif %}{{ a }}">>
            [] it.site = "for-assign"   -> <<"{% for i in (1..2) %}", "{% assign a = " \o e \o " %}", "{% endfor %}{{ a }}">>
            [] it.site = "liquid-assign" -> <<"{% liquid", "  # only assignments here", "  assign a = " \o e, "%}{{ a }}">>
            [] it.site = "capture-in-if" -> <<"{% if yes %}{% capture a %}", "{{ " \o e \o " }}", "{% endcapture %}{% endif %}{{ a }}">>
            \* both branches of an inline if are messages: the second one is 'Bye' | gettext
            [] it.site = "ternary-both" -> <<"{{ " \o e \o " if yes else 'Bye' | gettext }}">>
            [] it.site = "ternary-both-no" -> <<"{{ " \o e \o " if no else 'Bye' | gettext }}">>)
    [] it.k = "comment" ->
         (CASE it.site = "block"      -> <<"{% comment %}" \o it.c \o "{% endcomment %}">>
            [] it.site = "block-multi" -> <<"{% comment %}", it.c, "{% endcomment %}">>
            [] it.site = "hash"       -> <<"{# " \o it.c \o " #}">>
            [] it.site = "inline"     -> <<"{% # " \o it.c \o " %}">>)
    [] it.k = "filler" ->
         (CASE it.site = "text" -> <<"plain text">> [] it.site = "assign" -> <<"{% assign z = 1 %}">> [] it.site = "blank" -> <<"">>
            [] it.site = "same-line" -> <<>>)     \* no line of its own: the next item continues the line
MsgLineOffset(it) ==
  IF it.k = "filter" /\ it.site \in {"for-body", "if-body", "case-when", "if-assign", "for-assign", "capture-in-if"} THEN 2
  ELSE IF it.k = "filter" /\ it.site \in {"liquid", "liquid-assign"} THEN 3 ELSE 1

\* the template text, and the first line of every item
RECURSIVE LinesOf(_)
LinesOf(p) == IF p = <<>> THEN <<>> ELSE ItemLines(p[1]) \o LinesOf(Tail(p))
RECURSIVE JoinNL(_)
JoinNL(ls) == IF ls = <<>> THEN "" ELSE IF Len(ls) = 1 THEN ls[1] ELSE ls[1] \o Seps[sep] \o JoinNL(Tail(ls))
Source(p) == JoinNL(LinesOf(p))
RECURSIVE FirstLine(_, _)
FirstLine(p, i) == IF i = 1 THEN 1 ELSE FirstLine(p, i - 1) + Len(ItemLines(p[i - 1]))
LastLine(p, i) == FirstLine(p, i) + Len(ItemLines(p[i])) - 1

\* ---- what the render asks of the catalog -----------------------------------------------------
\* values of the data: m = MsgText, pl = PluralText, cx = "vctx", n = the count
CtxVal(kind) == IF kind = "lit" THEN CtxText ELSE "vctx"
Call(fam, ctx, id, plural, n) == [fam |-> fam, ctx |-> ctx, id |-> id, plural |-> plural, n |-> n]
CountVal(c, n) == IF c = "var" THEN n ELSE IF c = "0" THEN 0 ELSE IF c = "1" THEN 1 ELSE 2

Calls(it, n) ==
  CASE it.k = "tag" ->
         LET id == it.left
             pid == IF it.left = "Hello, %(you)s!" THEN "Hello, %(you)ss!" ELSE IF it.left = "Dear %(you)s," THEN "Dear %(you)ss," ELSE "Hello, Worlds!"
             cnt == IF it.count = "none" THEN 1 ELSE CountVal(it.count, n) IN
         \* a tag with a plural block asks for the plural forms, whatever the count (the catalog decides)
         IF it.plural = "lit"
         THEN <<Call(IF it.ctx = "none" THEN "ngettext" ELSE "npgettext", IF it.ctx = "none" THEN "" ELSE CtxVal(it.ctx), id, pid, cnt)>>
         ELSE <<Call(IF it.ctx = "none" THEN "gettext" ELSE "pgettext", IF it.ctx = "none" THEN "" ELSE CtxVal(it.ctx), id, "", -1)>>
    [] it.k = "filter" ->
         LET id == IF it.site = "after-filter" THEN "HELLO" ELSE MsgText     \* upcase ran first
             pid == PluralText
             once == CASE it.f = "gettext"   -> Call("gettext", "", id, "", -1)
                       [] it.f = "pgettext"  -> Call("pgettext", CtxVal(it.ctx), id, "", -1)
                       [] it.f = "ngettext"  -> Call("ngettext", "", id, pid, CountVal(it.count, n))
                       [] it.f = "npgettext" -> Call("npgettext", CtxVal(it.ctx), id, pid, CountVal(it.count, n))
                       [] it.f = "t" ->
                            IF it.plural # "none" /\ it.count # "none"
                            THEN Call(IF it.ctx = "none" THEN "ngettext" ELSE "npgettext", IF it.ctx = "none" THEN "" ELSE CtxVal(it.ctx), id, pid, CountVal(it.count, n))
                            ELSE Call(IF it.ctx = "none" THEN "gettext" ELSE "pgettext", IF it.ctx = "none" THEN "" ELSE CtxVal(it.ctx), id, "", -1)
             bye == Call("gettext", "", "Bye", "", -1)
         IN IF it.site \in {"for-body", "for-assign"} THEN <<once, once>>
            ELSE IF it.site = "ternary-both-no" THEN <<bye>> ELSE <<once>>
    [] OTHER -> <<>>

RECURSIVE AllCalls(_, _)
AllCalls(p, n) == IF p = <<>> THEN <<>> ELSE Calls(p[1], n) \o AllCalls(Tail(p), n)

\* ---- what the render prints (a catalog without translations: the ids themselves, the plural
\* id for every count but 1; m = "Hello", pl = "Hellos") ------------------------------------------------
Upper(s) == CASE s = "Hello" -> "HELLO" [] s = "Hellos" -> "HELLOS" [] OTHER -> s
ItemOut(it, n) ==
  CASE it.k = "tag" ->
         LET cnt == IF it.count = "none" THEN 1 ELSE CountVal(it.count, n)
             pl == it.plural = "lit" /\ cnt # 1 IN
         (CASE it.left = "Hello, World!"   -> IF pl THEN "Hello, Worlds!" ELSE "Hello, World!"
            [] it.left = "Hello, %(you)s!" -> IF pl THEN "Hello, Sues!" ELSE "Hello, Sue!"
            [] it.left = "Dear %(you)s,"   -> IF pl THEN "Dear Hellos," ELSE "Dear Hello,")
    [] it.k = "filter" ->
         LET c == Calls(it, n)[Len(Calls(it, n))]
             base == IF it.site = "ternary-both-no" THEN "Bye"
                     ELSE IF c.plural # "" /\ c.n # 1 THEN c.plural ELSE c.id
             nl == Seps[sep] IN
         (CASE it.site \in {"output", "echo", "assign", "ternary-left", "ternary-alt", "after-filter", "liquid", "ternary-both", "ternary-both-no",
                            "if-assign", "for-assign", "liquid-assign"} -> base
            [] it.site = "then-filter" -> Upper(base)
            [] it.site = "filter-arg" -> "xHello" \o base
            [] it.site = "for-body" -> nl \o base \o nl \o nl \o base \o nl
            [] it.site \in {"if-body", "case-when", "capture-in-if"} -> nl \o base \o nl)
    [] it.k = "filler" -> IF it.site = "text" THEN "plain text" ELSE ""
    [] OTHER -> ""
RECURSIVE OutOf(_, _)
OutOf(p, n) == IF p = <<>> THEN "" ELSE IF Len(p) = 1 THEN ItemOut(p[1], n) ELSE ItemOut(p[1], n) \o Seps[sep] \o OutOf(Tail(p), n)

\* ---- what extraction reports ---------------------------------------------------------------------
\* a filter is a message only when it is applied directly to a string literal and every identifier
\* the family needs is a literal; a tag's context is reported only when it is a literal
Translators(c) == Len(c) >= 12 /\ SubSeq(c, 1, 12) = "Translators:"
Reportable(it) ==
  CASE it.k = "tag" -> TRUE
    [] it.k = "filter" ->
         /\ it.left = "lit" /\ it.site # "after-filter"
         /\ (CASE it.f = "gettext" -> TRUE
               [] it.f = "pgettext" -> it.ctx = "lit"
               [] it.f = "ngettext" -> it.plural = "lit"
               [] it.f = "npgettext" -> it.ctx = "lit" /\ it.plural = "lit"
               [] it.f = "t" -> it.plural \in {"none", "lit"})
    [] OTHER -> FALSE

Message(it) ==
  LET id == IF it.k = "tag" THEN it.left ELSE MsgText
      pid == IF it.k = "tag" THEN (IF it.left = "Hello, %(you)s!" THEN "Hello, %(you)ss!" ELSE IF it.left = "Dear %(you)s," THEN "Dear %(you)ss," ELSE "Hello, Worlds!") ELSE PluralText
      hasp == IF it.k = "tag" THEN it.plural = "lit"
              ELSE it.f \in {"ngettext", "npgettext"} \/ (it.f = "t" /\ it.plural = "lit")
      hasc == IF it.k = "tag" THEN it.ctx = "lit"
              ELSE it.f \in {"pgettext", "npgettext"} \/ (it.f = "t" /\ it.ctx = "lit")
  IN [fam |-> IF hasp THEN (IF hasc THEN "npgettext" ELSE "ngettext") ELSE (IF hasc THEN "pgettext" ELSE "gettext"),
      ctx |-> IF hasc THEN CtxText ELSE "", id |-> id, plural |-> IF hasp THEN pid ELSE ""]

\* a translator comment belongs to the message that immediately follows it: the next item, with no
\* line between the end of the comment and the line of the message
CommentsFor(p, i) ==
  IF i > 1 /\ p[i - 1].k = "comment" /\ Translators(p[i - 1].c)
     /\ FirstLine(p, i) + MsgLineOffset(p[i]) - 1 <= LastLine(p, i - 1) + 1      \* the message is on the very next line
  THEN <<p[i - 1].c>> ELSE <<>>

ByeMsg == [fam |-> "gettext", ctx |-> "", id |-> "Bye", plural |-> ""]
Both(it) == it.k = "filter" /\ it.site \in {"ternary-both", "ternary-both-no"}
RECURSIVE ExtractFrom(_, _)
ExtractFrom(p, i) ==
  IF i > Len(p) THEN <<>>
  ELSE LET line == FirstLine(p, i) + MsgLineOffset(p[i]) - 1
           first == IF Reportable(p[i]) THEN <<[line |-> line, msg |-> Message(p[i]), comments |-> CommentsFor(p, i)]>> ELSE <<>>
           \* the second message of the line gets the comment only if the first did not take it
           second == IF Both(p[i]) THEN <<[line |-> line, msg |-> ByeMsg, comments |-> IF first = <<>> THEN CommentsFor(p, i) ELSE <<>>]>> ELSE <<>>
       IN first \o second \o ExtractFrom(p, i + 1)
Extracted(p) == ExtractFrom(p, 1)

\* ---- the property on the specification ---------------------------------------------------------------
\* every lookup whose identifiers are literals of the template is reported: same family, same ids, on
\* the line of its tag or expression
LiteralCall(it) ==
  IF it.k = "tag" THEN it.ctx # "var"
  ELSE it.left = "lit" /\ it.ctx # "var" /\ it.plural # "var" /\ it.site # "after-filter"
Covered ==
  \A i \in DOMAIN prog : \A n \in 0..2 :
     LiteralCall(prog[i]) =>
       \A k \in DOMAIN Calls(prog[i], n) :
          LET c == Calls(prog[i], n)[k] IN
          \E j \in DOMAIN Extracted(prog) :
             LET e == Extracted(prog)[j] IN
             /\ e.line = FirstLine(prog, i) + MsgLineOffset(prog[i]) - 1
             /\ e.msg.fam = c.fam /\ e.msg.id = c.id /\ e.msg.plural = c.plural /\ e.msg.ctx = c.ctx
\* a comment is attached to at most one message
CommentsOnce ==
  \A i \in DOMAIN prog : prog[i].k = "comment" =>
     Cardinality({j \in DOMAIN Extracted(prog) : Extracted(prog)[j].comments # <<>>
                                                 /\ Extracted(prog)[j].line \in FirstLine(prog, i)..(LastLine(prog, i) + 3)}) <= 1

\* ---- pools ---------------------------------------------------------------------------------------------
Kinds3 == {"none", "lit", "var"}
TagPool == {Tag(c, p, n, t) : c \in Kinds3, p \in {"none", "lit"}, n \in {"none", "0", "1", "2", "var"}, t \in TagTexts}
Sites == {"output", "echo", "assign", "ternary-left", "ternary-alt", "then-filter", "after-filter", "for-body", "if-body", "case-when", "liquid", "filter-arg",
          "if-assign", "for-assign", "liquid-assign", "capture-in-if", "ternary-both", "ternary-both-no"}
FilterPool ==
  {Flt("gettext", l, "none", "none", "none", s) : l \in {"lit", "var"}, s \in Sites}
  \cup {Flt("pgettext", l, c, "none", "none", s) : l \in {"lit", "var"}, c \in {"lit", "var"}, s \in Sites}
  \cup {Flt("ngettext", l, "none", p, n, s) : l \in {"lit", "var"}, p \in {"lit", "var"}, n \in {"0", "2", "var"}, s \in {"output", "assign", "ternary-alt", "liquid"}}
  \cup {Flt("npgettext", l, c, p, n, s) : l \in {"lit", "var"}, c \in {"lit", "var"}, p \in {"lit", "var"}, n \in {"1", "var"}, s \in {"output", "echo", "for-body"}}
  \cup {Flt("t", l, c, "none", "none", s) : l \in {"lit", "var"}, c \in Kinds3, s \in Sites}
  \* (a plural without a count is a malformed use of t: not generated)
  \cup {Flt("t", l, c, p, n, s) : l \in {"lit", "var"}, c \in Kinds3, p \in {"lit", "var"}, n \in {"0", "1", "2", "var"}, s \in {"output", "assign", "ternary-left", "if-body"}}
CommentPool == {Comment(k, t) : k \in {"block", "block-multi", "hash", "inline"}, t \in {"Translators: be kind", "just a note"}}
FillerPool == {Filler(k) : k \in {"text", "assign", "blank"}}

PoolAt(i) ==
  CASE Variant = "tags"     -> IF i = 1 THEN TagPool ELSE {}
    [] Variant = "filters"  -> IF i = 1 THEN FilterPool ELSE {}
    [] Variant = "comments" -> (CASE i = 1 -> CommentPool
                                  [] i = 2 -> FillerPool \cup CommentPool \cup {Tag("none", "none", "none", "Hello, World!"), Flt("t", "lit", "none", "none", "none", "output"),
                                                                               Flt("t", "lit", "none", "none", "none", "ternary-both"), Flt("pgettext", "lit", "lit", "none", "none", "ternary-both-no")}
                                  [] i = 3 -> {Tag("lit", "lit", "var", "Hello, World!"), Flt("t", "lit", "none", "none", "none", "output"), Flt("gettext", "lit", "none", "none", "none", "if-body"),
                                               Flt("t", "lit", "none", "none", "none", "ternary-both"), Flt("t", "var", "none", "none", "none", "ternary-both"),
                                               Flt("gettext", "lit", "none", "none", "none", "ternary-both-no"), Flt("gettext", "lit", "none", "none", "none", "liquid-assign"),
                                               Flt("t", "var", "none", "none", "none", "output")}
                                  [] i = 4 -> {Flt("gettext", "lit", "none", "none", "none", "echo"), Tag("none", "none", "none", "Hello, %(you)s!")}
                                  [] OTHER -> {})
    [] Variant = "mixed"    -> (IF i <= 3 THEN {t \in TagPool : t.left = "Hello, World!" /\ t.count \in {"none", "var"}}
                                               \cup {f \in FilterPool : f.site \in {"output", "ternary-alt", "liquid"} /\ f.count \in {"none", "var"} /\ f.f \in {"t", "ngettext"}}
                                               \cup {Comment("hash", "Translators: be kind"), Filler("text")}
                                ELSE {})
    [] Variant = "markers"  -> (CASE i = 1 -> {Filler("text")} \cup {TagM(c, p, n, t, mk) : c \in {"none", "lit"}, p \in {"none", "lit"}, n \in {"none", "var"},
                                                                                    t \in {"Hello, %(you)s!", "Dear %(you)s,"}, mk \in Marks}
                                  [] i = 2 -> {TagM("none", p, "var", "Hello, %(you)s!", mk) : p \in {"none", "lit"}, mk \in Marks} \cup {Filler("text")}
                                  [] OTHER -> {})
    [] Variant = "breaks"   -> (CASE i = 1 -> {Comment("hash", "Translators: be kind"), Filler("text"), Filler("blank")}
                                  [] i = 2 -> {Filler("text"), Tag("none", "none", "none", "Hello, World!"), Flt("t", "lit", "none", "none", "none", "output")}
                                  [] i = 3 -> {Tag("lit", "lit", "var", "Hello, World!"), Flt("gettext", "lit", "none", "none", "none", "echo"), Flt("t", "lit", "none", "none", "none", "if-body")}
                                  [] OTHER -> {})
    [] OTHER -> {}

Init == prog = <<>> /\ sep \in (IF Variant = "breaks" THEN DOMAIN Seps ELSE {1})
Next == Len(prog) < MaxTop /\ \E it \in PoolAt(Len(prog) + 1) : prog' = Append(prog, it) /\ UNCHANGED sep

Opt == [format |-> "TXT", charset |-> "UTF-8", openOptions |-> <<"WRITE", "CREATE", "APPEND">>]
Export ==
  Serialize(ToJson([focus |-> Focus, src |-> Source(prog), items |-> prog,
                    extracted |-> Extracted(prog),
                    calls |-> [n \in 0..2 |-> AllCalls(prog, n)],
                    outs |-> [n \in 0..2 |-> OutOf(prog, n)],
                    plain |-> Source([i \in DOMAIN prog |-> IF prog[i].k = "tag" THEN [prog[i] EXCEPT !.c = ""] ELSE prog[i]]),
                    literal |-> [i \in DOMAIN prog |-> LiteralCall(prog[i])]]) \o "\n", IOEnv.OUT_FILE, Opt).exitValue = 0
=============================================================================
