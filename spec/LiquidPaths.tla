------------------------------ MODULE LiquidPaths ------------------------------
(***************************************************************************)
(* Template-name resolution of the file-system and package loaders         *)
(* (file_system_loader.py: resolve_path; package_loader.py: _resolve_path) *)
(* over a small directory tree with files inside and outside the search    *)
(* paths.  A name is a lead ("" relative, "/" file-system root, "@ROOT@/"  *)
(* the absolute path of the tree's base directory) and a sequence of       *)
(* segments; TLC enumerates every name up to MaxSeg segments.              *)
(*                                                                         *)
(* The operating system resolves a path by walking it ("..": one level up),*)
(* and joining an absolute name onto a search path discards the search     *)
(* path (pathlib).  The loader's guards are what keeps the walk inside.    *)
(***************************************************************************)
EXTENDS Integers, Sequences, FiniteSets, TLC, Json, IOUtils

CONSTANTS
  Segs,      \* segment alphabet
  MaxSeg,    \* maximal number of segments in a name
  Roots,     \* sequence of search paths (each a path = sequence of directory names below the base)
  Ext,       \* default extension ("" = none)
  Dev,       \* named deviations (known defects the model can reproduce)
  Focus

VARIABLES lead, segs
vars == <<lead, segs>>

\* ---- the file system ---------------------------------------------------------
\* below the base directory: files (path |-> content id) and directories
Files == ( <<"r1", "a.txt">> :> "r1a" ) @@ ( <<"r1", "b">> :> "r1b" ) @@ ( <<"r1", "sub", "c.txt">> :> "r1c" )
         @@ ( <<"r2", "a.txt">> :> "r2a" ) @@ ( <<"r2", "d.txt">> :> "r2d" )
         @@ ( <<"secret.txt">> :> "SECRET" ) @@ ( <<"r1x", "a.txt">> :> "r1x-a" ) @@ ( <<"r1", "sub.txt">> :> "r1subtxt" )
Dirs == {<<>>, <<"r1">>, <<"r1", "sub">>, <<"r2">>, <<"r1x">>}

IsPrefix(p, q) == Len(p) <= Len(q) /\ SubSeq(q, 1, Len(p)) = p

\* pathlib's reading of a relative name: empty and "." segments vanish
Parts(ss) == SelectSeq(ss, LAMBDA s : s # "" /\ s # ".")

\* the OS walking `parts` from directory `at` (a path below the base); "above" when
\* the walk leaves the base directory
RECURSIVE Walk(_, _)
Walk(at, parts) ==
  IF parts = <<>> THEN [ok |-> TRUE, path |-> at]
  ELSE IF parts[1] = ".." THEN
         (IF at = <<>> THEN [ok |-> FALSE, path |-> <<>>] ELSE Walk(SubSeq(at, 1, Len(at) - 1), Tail(parts)))
  ELSE IF at \notin Dirs THEN [ok |-> FALSE, path |-> at]          \* walking through a file or a missing directory
  ELSE Walk(Append(at, parts[1]), Tail(parts))

HasSuffix(s) == s \in {"a.txt", "c.txt", "d.txt", "secret.txt", "sub.txt", "@SLASH@secret.txt"}
WithExt(parts) ==
  IF Ext = "" \/ parts = <<>> \/ HasSuffix(parts[Len(parts)]) \/ parts[Len(parts)] = ".." THEN parts
  ELSE [parts EXCEPT ![Len(parts)] = @ \o Ext]

NotFound == [found |-> FALSE, content |-> "", path |-> <<>>]

\* what one search path serves for the name
ServeFrom(root, parts) ==
  LET w == Walk(root, parts) IN
  IF w.ok /\ w.path \in DOMAIN Files THEN [found |-> TRUE, content |-> Files[w.path], path |-> w.path]
  ELSE NotFound

RECURSIVE FirstRoot(_, _)
FirstRoot(i, parts) ==
  IF i > Len(Roots) THEN NotFound
  ELSE LET r == ServeFrom(Roots[i], parts) IN IF r.found THEN r ELSE FirstRoot(i + 1, parts)


\* ("/@ROOT@/", "//@ROOT@/": the absolute path again with two and three leading slashes - POSIX and pathlib
\*  keep exactly two as a root of its own, "//", and the operating system resolves it like one)
AbsLeads == {"@ROOT@/", "/@ROOT@/", "//@ROOT@/"}
\* ---- the loader ----------------------------------------------------------------
Resolve ==
  LET parts == WithExt(Parts(IF lead = "~/" THEN <<"~">> \o segs ELSE segs)) IN
  IF lead \in AbsLeads THEN
       \* an absolute name: the design refuses it; as found, the join discarded the search path
       (IF "AbsoluteJoin" \in Dev THEN ServeFrom(<<>>, parts) ELSE NotFound)
  \* "/..." - also spelled as an empty first segment - is absolute: nothing of ours
  \* lives at the file-system root
  ELSE IF lead = "/" \/ (Len(segs) > 1 /\ segs[1] = "") THEN NotFound
  ELSE IF ".." \in {parts[i] : i \in DOMAIN parts} /\ "NoParentCheck" \notin Dev THEN NotFound
  ELSE IF parts = <<>> THEN NotFound        \* the search path itself is not a template
  ELSE FirstRoot(1, parts)

Roots1 == << <<"r1">> >>
Roots2 == << <<"r1">>, <<"r2">> >>

\* ---- enumeration ----------------------------------------------------------------
\* ("~/": to the loaders "~" is a directory name like any other - nobody's home directory)
Init == lead \in {"", "/", "~/"} \cup AbsLeads /\ segs = <<>>
Next == Len(segs) < MaxSeg /\ \E s \in Segs : segs' = Append(segs, s) /\ UNCHANGED lead

\* C13: whatever the name, what is served is a file inside one of the search paths
Confined == Resolve.found => \E i \in DOMAIN Roots : IsPrefix(Roots[i], Resolve.path)

RECURSIVE Join(_)
Join(ss) == IF ss = <<>> THEN "" ELSE IF Len(ss) = 1 THEN ss[1] ELSE ss[1] \o "/" \o Join(Tail(ss))

Export ==
  Serialize(ToJson([focus |-> Focus, name |-> lead \o Join(segs), ext |-> Ext, roots |-> Roots,
                    found |-> Resolve.found, content |-> Resolve.content]) \o "\n", IOEnv.OUT_FILE,
            [format |-> "TXT", charset |-> "UTF-8", openOptions |-> <<"WRITE", "CREATE", "APPEND">>]).exitValue = 0
=============================================================================
