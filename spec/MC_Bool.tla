-------------------------------- MODULE MC_Bool --------------------------------
(* Focus "bool": every comparison / membership / logical operator over every    *)
(* pair of values of the pool (truthiness, equality, ordering, precedence),     *)
(* as an `if` condition and as an inline (ternary) condition.                   *)
EXTENDS LiquidGen, LiquidAst

CONSTANT Variant    \* "ops" (operators over all value pairs) | "trees" (all and/or/not trees, truthy/falsy operands)

Vals == {Nil, Bool(TRUE), Bool(FALSE), IntV(0), IntV(1), IntV(2), Str(""), Str("a"), Str("b"), Str(" "),
         Arr(<<>>), Arr(<<IntV(1)>>), Arr(<<Str("a"), Str("b")>>), Hash(<< <<"a", IntV(1)>> >>), Range(1, 2),
         Dec(10, 1), Dec(15, 1)}                \* the floats 1.0 and 1.5
MCData == {<< <<<<"x", vx>>, <<"y", vy>>>>, <<>>, <<>>, <<>> >> : vx \in Vals, vy \in (IF Variant = "trees" THEN {Nil, IntV(1)} ELSE Vals)}
          \cup {<< <<<<"y", vy>>>>, <<>>, <<>>, <<>> >> : vy \in {Nil, IntV(1), Str("a")}}
MCCfgs == {Cfg("+", TRUE, FALSE, "default")}
MCPartials == <<>>

X == V("x")
Y == V("y")
Ops == {"==", "!=", "<>", "<", ">", "<=", ">="}
Atoms == {X, Y, TrueE, FalseE, NilE}
Cmps == {Cmp(op, X, Y) : op \in Ops} \cup {Cmp(op, X, I(1)) : op \in Ops} \cup {Cmp(op, S("a"), Y) : op \in Ops}
        \cup {Cmp(op, X, FloatE("1.5", 15, 1)) : op \in Ops} \cup {Cmp("==", FloatE("1.0", 10, 1), Y), Cmp("<", FloatE("0.5", 5, 1), I(1))}
        \cup {Cmp("==", X, EmptyE), Cmp("==", BlankE, Y), Cmp("!=", X, BlankE), Cmp("==", X, NilE), Cmp("==", X, TrueE),
              Contains(X, Y), In(X, Y), Contains(X, S("a")), In(I(1), Y)}
Logic == {And(a, b) : a \in {X, Cmp("==", X, Y)}, b \in {Y, Not(Y), Cmp("<", X, Y)}}
         \cup {Or(a, b) : a \in {X, Cmp("==", X, Y)}, b \in {Y, Not(Y), Cmp("<", X, Y)}}
         \cup {Not(X), Not(Cmp("==", X, Y)), Not(And(X, Y)), Not(Or(X, Y)),
               Or(X, And(Y, FalseE)), And(Or(X, Y), FalseE), Or(And(X, FalseE), Y), And(X, Or(Y, FalseE)),
               Or(Or(X, Y), FalseE), And(And(X, Y), TrueE), Or(FalseE, Or(X, Y)), And(Not(X), Y), Or(Not(X), Y),
               And(X, Cmp("==", Y, I(1))), Or(Cmp(">=", X, I(1)), Cmp("<=", Y, I(1)))}
\* every tree of depth <= 2 over and / or / not (grouping and its serialisation, C12)
T1 == {X, Y, Not(X), Not(Y), And(X, Y), Or(X, Y), Not(And(X, Y)), Not(Or(X, Y))}
Lit1 == {X, Y, Not(X), Not(Y)}
Pairs == {And(p, q) : p \in Lit1, q \in Lit1} \cup {Or(p, q) : p \in Lit1, q \in Lit1}
Trees == {And(l, r) : l \in T1, r \in T1} \cup {Or(l, r) : l \in T1, r \in T1}
         \cup {And(pq, r) : pq \in Pairs, r \in {X, Not(Y)}} \cup {Or(pq, r) : pq \in Pairs, r \in {X, Not(Y)}}
         \cup {And(r, pq) : pq \in Pairs, r \in {X, Not(Y)}} \cup {Or(r, pq) : pq \in Pairs, r \in {X, Not(Y)}}
Conds == Atoms \cup Cmps \cup Logic \cup Trees

OpsPool == {If(c, <<NText("T")>>, <<>>, Else(<<NText("F")>>)) : c \in Atoms \cup Cmps \cup Logic}
          \cup {Unless(c, <<NText("T")>>, <<>>, Else(<<NText("F")>>)) : c \in Cmps}
          \cup {NOut(Tern(F(S("T"), <<>>), c, S("F"), <<>>, <<>>)) : c \in Cmps \cup Logic}
          \cup {NOut(Tern(F(X, <<>>), c, NoAltE, <<>>, <<Fl("default", <<S("D")>>)>>)) : c \in {Y, Cmp("==", X, Y)}}
          \cup {NOut(Tern(F(X, <<Fl("upcase", <<>>)>>), Y, X, <<Fl("append", <<S("!")>>)>>, <<Fl("prepend", <<S(">")>>)>>))}
TreePool == {If(c, <<NText("T")>>, <<>>, Else(<<NText("F")>>)) : c \in Trees}
            \cup {NOut(Tern(F(S("T"), <<>>), c, S("F"), <<>>, <<>>)) : c \in Trees}
MCPool == IF Variant = "trees" THEN TreePool ELSE OpsPool
MCPoolAt(i) == MCPool
=============================================================================
