-------------------------------- MODULE MC_Flow --------------------------------
(* Focus "flow": text, output, assign, if/elsif/else, unless, case/when/else   *)
(* over two variables; every pair/triple of these constructs (C01, C16, C12).  *)
EXTENDS LiquidGen, LiquidAst

Vals == {Nil, Bool(TRUE), Bool(FALSE), IntV(0), IntV(1), Str(""), Str("a"), Arr(<<>>), Arr(<<IntV(1), Str("a")>>)}
Layers(vx, vy) == << <<<<"x", vx>>, <<"y", vy>>>>, <<>>, <<>>, <<>> >>
MCData == {Layers(vx, vy) : vx \in {Nil, Bool(FALSE), IntV(1), Str("a"), Arr(<<>>)}, vy \in {IntV(1), Str("a")}}
         \cup {<< <<<<"y", IntV(1)>>>>, <<>>, <<>>, <<>> >>}      \* x undefined

MCCfgs == {Cfg("+", s, FALSE, "default") : s \in BOOLEAN}

X == V("x")
Y == V("y")
Conds == {X, Not(X), Cmp("==", X, Y), Cmp("==", X, I(1)), Cmp("!=", X, S("a")), And(X, Y), Or(X, Y),
          Cmp("<", X, I(1)), Cmp("==", X, EmptyE), Cmp("==", X, BlankE), Contains(X, S("a")),
          Or(X, And(Y, FalseE)), And(Or(X, Y), FalseE)}
Leaves == {NText("a"), NText(" "), NOut(P(X)), NOut(P(Y)), Assign("x", P(I(1))), Assign("y", P(X)),
           Assign("x", P(S("a")))}
Bodies == {<<>>} \cup {<<l>> : l \in Leaves} \cup {<<NText(" "), Assign("x", P(I(1)))>>, <<NOut(P(X)), NText("b")>>}
SmallBodies == {<<>>, <<NText("t")>>, <<NText(" ")>>, <<Assign("y", P(I(2)))>>, <<NOut(P(Y))>>}

Ifs == {If(c, b, <<>>, NoElse) : c \in Conds, b \in Bodies}
       \cup {If(c, b, <<>>, Else(e)) : c \in {X, Cmp("==", X, Y)}, b \in SmallBodies, e \in SmallBodies}
       \cup {If(X, b, <<Elif(Y, e)>>, Else(<<NText("z")>>)) : b \in SmallBodies, e \in SmallBodies}
       \cup {Unless(c, b, <<>>, Else(<<NText("u")>>)) : c \in {X, Cmp("==", X, I(1))}, b \in SmallBodies}
Cases == {Case(X, <<When(<<I(1)>>, b)>>, els) : b \in SmallBodies, els \in {NoElse, Else(<<NText("e")>>)}}
         \cup {Case(X, <<When(<<I(1), S("a")>>, b), When(<<S("a")>>, <<NText("2")>>)>>, Else(<<NText("e")>>)) : b \in SmallBodies}
         \cup {Case(X, <<When(<<Y>>, <<NText("y")>>), When(<<NilE>>, <<NText("n")>>)>>, Else(e)) : e \in SmallBodies}
         \* a when block that rebinds the subject: later whens compare with the new value
         \cup {Case(X, <<When(<<I(1)>>, <<NText("one"), Assign("x", P(v))>>), When(<<S("a"), NilE>>, <<NText("two")>>)>>, els) :
                 v \in {S("a"), I(1), NilE}, els \in {NoElse, Else(<<NText("e")>>)}}

MCPool == Leaves \cup Ifs \cup Cases
MCPoolAt(i) == MCPool
MCPartials == <<>>
=============================================================================
