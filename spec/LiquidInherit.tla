----------------------------- MODULE LiquidInherit -----------------------------
(***************************************************************************)
(* Template inheritance (C08).  A chain t1 extends t2 ... extends tk is    *)
(* built template by template (state of the spec): every template          *)
(* independently omits / defines / defines-with-block.super / marks        *)
(* required each block name, optionally nests block b inside block a;      *)
(* malformed templates (duplicate block, two extends, wrong endblock name, *)
(* circular and dangling chains) are in the pool too; the chain is entered *)
(* directly or through include / render, and a base template may include a *)
(* partial that itself extends another chain.                              *)
(*                                                                         *)
(* Two formulations are compared by TLC on every well-formed chain:        *)
(*   LiquidSem!Render   per-render block stacks with parent links          *)
(*   Page               a fold over the chain: each block of the root      *)
(*                      parent replaced by its most-derived definition,    *)
(*                      block.super by the next less-derived one           *)
(***************************************************************************)
EXTENDS LiquidSem, LiquidSrc, LiquidAst, IOUtils

CONSTANTS MaxDepth, Focus,
          AutoEsc     \* auto escape on: the data holds markup, block.super is rendered output (never escaped again)

VARIABLES chain,    \* sequence of template descriptions, leaf first
          done
vars == <<chain, done>>

Names == <<"a", "b">>
Shapes == {"omit", "plain", "super", "req"}

\* description of one template: shape per block name, nesting, malformation
Good == [a : Shapes, b : Shapes, nest : BOOLEAN, bad : {""}]
\* ("two-if" / "two-block": the second extends hides inside an if body / a block body)
Bad  == {[a |-> "plain", b |-> "super", nest |-> FALSE, bad |-> m] : m \in {"dup", "two", "endname", "two-if", "two-block"}}
        \cup {[a |-> "omit", b |-> "plain", nest |-> FALSE, bad |-> "dup"], [a |-> "super", b |-> "omit", nest |-> TRUE, bad |-> "two"]}
Descs == Good \cup Bad

TName(i) == "t" \o ToString(i)

\* ---- concrete templates ---------------------------------------------------------
BodyOf(i, nm, d, inner) ==
  <<NText("<" \o nm \o ToString(i) \o ">")>>
  \o (IF d[nm] = "super" THEN <<NOut(P(VP("block", "super")))>> ELSE <<>>)
  \o inner
  \o <<NText("</" \o nm \o ">")>>

BlockOf(i, nm, d, inner) == Block(nm, d[nm] = "req", BodyOf(i, nm, d, inner))

NodesOf(i, d, parent) ==
  LET bB == IF d.b = "omit" THEN <<>> ELSE <<BlockOf(i, "b", d, <<>>)>>
      bA == IF d.a = "omit" THEN <<>> ELSE <<BlockOf(i, "a", d, IF d.nest THEN bB ELSE <<>>)>>
      blocks == IF d.nest /\ d.a # "omit" THEN bA ELSE bA \o <<NText("-")>> \o bB
      ext == IF parent = "" THEN <<>> ELSE <<Extends(parent)>>
      bad == CASE d.bad = "dup" -> (IF d.a # "omit" THEN <<Block("a", FALSE, <<NText("dup")>>)>>
                                    ELSE IF d.b # "omit" THEN <<Block("b", FALSE, <<NText("dup")>>)>> ELSE <<>>)
               [] d.bad = "two" -> <<Extends("t1")>>
               [] d.bad = "two-if" -> <<If(TrueE, <<Extends("t1")>>, <<>>, NoElse)>>
               [] d.bad = "two-block" -> <<Block("c", FALSE, <<NText("c"), Extends("t1")>>)>>
               [] d.bad = "endname" -> <<[Block("c", FALSE, <<NText("c")>>) EXCEPT !.endname = "zz"]>>
               [] OTHER -> <<>>
  IN ext \o <<NText("[" \o ToString(i) \o ":")>> \o blocks \o bad \o <<NOut(P(V("v"))), NText("]")>>

\* chain link of template i: the next template, or a named special target for the last
Parent(i, last) ==
  IF i < Len(chain) THEN TName(i + 1)
  ELSE last           \* "" (root parent), "t1" (cycle through the leaf), "nosuch" (dangling), the last template itself or the
                      \* second one (a cycle the leaf leads into without being part of it)

Templates(last) ==
  [i \in DOMAIN chain |-> <<TName(i), NodesOf(i, chain[i], Parent(i, last))>>]

\* other templates of the loader: entry points and an independent small chain
Extra ==
  << <<"inc", <<NText("pre("), Include(S("t1"), "none", NilE, "", <<>>), NText(")post")>>>>,
     <<"ren", <<NText("pre("), RenderT(S("t1"), "none", NilE, "", <<WArg("v", V("v"))>>), NText(")post")>>>>,
     <<"u1", <<Extends("u2"), Block("a", FALSE, <<NText("<ua1>"), NOut(P(VP("block", "super"))), NText("</ua>")>>)>>>>,
     <<"u2", <<NText("{u:"), Block("a", FALSE, <<NText("<ua2/>")>>), NText("}")>>>>,
     \* a plain template that includes an extending partial and then templates whose blocks
     \* render directly (no chain in force any more)
     <<"seq", <<Include(S("u1"), "none", NilE, "", <<>>), NText("|"), Include(S("u2"), "none", NilE, "", <<>>), NText("|"),
                Block("a", FALSE, <<NText("own-a")>>), RenderT(S("u2"), "none", NilE, "", <<>>)>>>>,
     \* a root parent that includes an extending partial between its own blocks
     \* block.super evaluated more than once in one rendering of a block, over a parent definition that changes what
     \* it prints (a counter, a cycle): every evaluation renders the parent definition again (two and three levels)
     <<"s0", <<Extends("s1"), Block("a", FALSE, <<NText("<s0>"), NOut(P(VP("block", "super"))), NText("+"), NOut(P(VP("block", "super"))), NText("</s0>")>>)>>>>,
     <<"s1", <<Extends("s2"), Block("a", FALSE, <<NText("<s1>"), NOut(P(VP("block", "super"))), NOut(P(VP("block", "super"))), NText("</s1>")>>)>>>>,
     <<"s2", <<NText("{s:"), Block("a", FALSE, <<Incr("c"), Cycle("", <<S("x"), S("y"), S("z")>>, "|x,y,z")>>), Incr("c"), NText("}")>>>>,
     \* errors raised while a chain renders name the template they come from (C17): a block made required half-way
     \* down a three-level chain and never overridden; an expression that fails inside an overriding block
     <<"r1", <<Extends("r2")>>>>,
     <<"r2", <<Extends("r3"), Block("a", TRUE, <<>>)>>>>,
     <<"r3", <<NText("line one\nline two\n["), Block("a", FALSE, <<NText("A")>>), NText("]")>>>>,
     <<"z1", <<Extends("u2"), Block("a", FALSE, <<NText("some text before it "), NOut(F(I(1), <<Fl("divided_by", <<I(0)>>)>>))>>)>>>>,
     <<"mix1", <<Extends("mix2"), Block("a", FALSE, <<NText("<mixA>")>>), Block("b", FALSE, <<NText("<mixB>")>>)>>>>,
     <<"mix2", <<NText("M["), Block("a", FALSE, <<NText("a0")>>), NText("|"), Include(S("u1"), "none", NilE, "", <<>>),
                 NText("|"), Block("b", FALSE, <<NText("b0")>>), NText("]")>>>> >>

AllTemplates(last) == Templates(last) \o Extra
Ann(ts) == [i \in DOMAIN ts |-> <<ts[i][1], AnnotTemplate(ts[i][2])>>]

\* ---- reference resolution (the "what") ---------------------------------------------
IsBad(d) == d.bad \in {"two", "endname", "two-if", "two-block"} \/ (d.bad = "dup" /\ (d.a # "omit" \/ d.b # "omit"))
WellFormed == \A i \in DOMAIN chain : ~IsBad(chain[i])
\* definitions of nm from the most derived to the root parent
DefIdx(nm) == SelectSeq([i \in DOMAIN chain |-> i], LAMBDA i : chain[i][nm] # "omit")

RECURSIVE DefText(_, _, _), BlockText(_, _)
\* text of the k-th definition (in DefIdx order) of nm
DefText(nm, k, fuel) ==
  LET idx == DefIdx(nm)
      i == idx[k]
      d == chain[i] IN
  "<" \o nm \o ToString(i) \o ">"
  \o (IF d[nm] = "super" THEN (IF k < Len(idx) /\ fuel > 0 THEN DefText(nm, k + 1, fuel - 1) ELSE "") ELSE "")
  \o (IF nm = "a" /\ d.nest /\ d.b # "omit" THEN BlockText("b", fuel) ELSE "")
  \o "</" \o nm \o ">"
\* what a block tag for nm renders: its most derived definition
RequiredUnmet(nm) == DefIdx(nm) # <<>> /\ chain[DefIdx(nm)[1]][nm] = "req"
BlockText(nm, fuel) == IF DefIdx(nm) = <<>> THEN ""
                       ELSE IF RequiredUnmet(nm) THEN "!REQ!"        \* rendering it is an error
                       ELSE DefText(nm, 1, fuel)

\* the page: the root parent's text with its block tags resolved
Page(v) ==
  LET k == Len(chain)
      d == chain[k]
      root == "[" \o ToString(k) \o ":"
              \o (IF d.a = "omit" THEN "" ELSE BlockText("a", 6))
              \o (IF d.nest /\ d.a # "omit" THEN "" ELSE "-" \o (IF d.b = "omit" THEN "" ELSE BlockText("b", 6)))
              \o v \o "]"
  IN root

-----------------------------------------------------------------------------
Data(v) == << <<<<"v", Str(v)>>>>, <<>>, <<>>, <<>> >>
Config == Cfg("+", TRUE, AutoEsc, "default")
V0 == IF AutoEsc THEN "<V&'>" ELSE "V"
Shown == IF AutoEsc THEN Escape(V0) ELSE V0     \* what an output statement writes for v

Init == chain = <<>> /\ done = FALSE
AddTemplate(d) == /\ ~done /\ Len(chain) < MaxDepth
                  /\ chain' = Append(chain, d) /\ done' = FALSE
Finish == /\ ~done /\ chain # <<>> /\ done' = TRUE /\ UNCHANGED chain
Next == (\E d \in Descs : AddTemplate(d)) \/ Finish

Result(main, last) == Render(Ann(AllTemplates(last)), main, Data(V0), Config)

\* machine (stacks) = reference (fold) on every well-formed chain whose required
\* blocks are all overridden; required-but-unmet chains fail with RequiredBlockError
RefinesReference ==
  (done /\ WellFormed) =>
     LET r == Result("t1", "") IN
     IF r.err = "UNSPEC" THEN TRUE
     ELSE IF HasSub(Page(Shown), "!REQ!") THEN ~r.ok /\ r.err = "RequiredBlockError"
     ELSE r.ok /\ r.out = Page(Shown)

\* malformed chains are rejected with a template-inheritance error, never rendered
Rejected ==
  \* (a lone template with a duplicate block name is not a chain: it just renders)
  (done /\ ~WellFormed /\ (Len(chain) > 1 \/ chain[1].bad # "dup")) => ~Result("t1", "").ok /\ Result("t1", "").err \in {"TemplateInheritanceError", "RequiredBlockError", "UNSPEC"}
Circular == done => Result("t1", "t1").err \in {"TemplateInheritanceError", "UNSPEC"}
\* the leaf leads into a cycle it is not part of: t1 -> .. -> tk -> tk, t1 -> t2 -> .. -> tk -> t2
InnerTargets == IF Len(chain) >= 2 THEN {TName(Len(chain)), "t2"} ELSE {}
CircularInner == done => \A tgt \in InnerTargets : Result("t1", tgt).err \in {"TemplateInheritanceError", "UNSPEC"}

Emit(main, last) ==
  LET r == Result(main, last) IN
  IF r.err = "UNSPEC" THEN TRUE
  ELSE Serialize(ToJson([focus |-> Focus, main |-> main,
                         templates |-> [i \in DOMAIN AllTemplates(last) |-> <<AllTemplates(last)[i][1], Src(AllTemplates(last)[i][2])>>],
                         data |-> Data(V0), cfg |-> Config, expect |-> r]) \o "\n", IOEnv.OUT_FILE,
            [format |-> "TXT", charset |-> "UTF-8", openOptions |-> <<"WRITE", "CREATE", "APPEND">>]).exitValue = 0

Export ==
  done => /\ Emit("t1", "") /\ Emit("inc", "") /\ Emit("ren", "")
          \* (replayed for a handful of chains only: a library that does not reject them does not return either)
          /\ ((\A i \in DOMAIN chain : chain[i].bad = "" /\ chain[i].b = "omit" /\ ~chain[i].nest /\ chain[i].a \in {"plain", "super"})
                 => \A tgt \in InnerTargets : Emit("t1", tgt) /\ Emit("inc", tgt))
          /\ (Len(chain) = 1 => (Emit("s1", "") /\ Emit("s0", "") /\ Emit("r1", "") /\ Emit("z1", "")))
          /\ (Len(chain) <= 2 => (Emit("t1", "t1") /\ Emit("t1", "nosuch") /\ Emit("mix1", "") /\ Emit("u1", "") /\ Emit("seq", "")))
=============================================================================
