------------------------------- MODULE LiquidAst -------------------------------
(* Constructors for AST records (DESIGN.md appendix B), used by the focus      *)
(* configurations MC_*.tla to write their pools.                               *)
EXTENDS Sequences, TLC

W0 == <<"", "">>                       \* no whitespace-control markers
V(name)      == [k |-> "var", segs |-> <<[t |-> "k", v |-> name]>>]
VP(name, p)  == [k |-> "var", segs |-> <<[t |-> "k", v |-> name], [t |-> "k", v |-> p]>>]
VI(name, i)  == [k |-> "var", segs |-> <<[t |-> "k", v |-> name], [t |-> "i", i |-> i]>>]
S(s)         == [k |-> "str", v |-> s]
I(n)         == [k |-> "int", n |-> n]
\* an integer literal written in another way (exponent form)
IntT(txt, n) == [k |-> "int", n |-> n, txt |-> txt]
\* a float literal: its text and the number it denotes (dm / 10^de)
FloatE(txt, dm, de) == [k |-> "float", txt |-> txt, dm |-> dm, de |-> de]
NilE         == [k |-> "nil"]
TrueE        == [k |-> "true"]
FalseE       == [k |-> "false"]
EmptyE       == [k |-> "empty"]
BlankE       == [k |-> "blank"]
RangeE(a, b) == [k |-> "range", a |-> a, b |-> b]
Fl(n, args)  == [n |-> n, args |-> args]
F(left, fs)  == [k |-> "filtered", left |-> left, filters |-> fs]
P(e)         == F(e, <<>>)
Tern(l, c, alt, altf, tail) == [k |-> "ternary", left |-> l, c |-> c, alt |-> alt, altf |-> altf, tail |-> tail]
NoAltE       == [k |-> "none"]
Not(e)       == [k |-> "not", e |-> e]
And(l, r)    == [k |-> "and", l |-> l, r |-> r]
Or(l, r)     == [k |-> "or", l |-> l, r |-> r]
Cmp(op, l, r) == [k |-> "cmp", op |-> op, l |-> l, r |-> r]
Contains(l, r) == [k |-> "contains", l |-> l, r |-> r]
In(l, r)     == [k |-> "in", l |-> l, r |-> r]

NText(s)      == [k |-> "text", v |-> s, lm |-> "", rm |-> ""]
Raw(s)       == [k |-> "raw", v |-> s, wc |-> <<"", "", "", "">>]
Comment(kind, s) == [k |-> "comment", kind |-> kind, v |-> s, wc |-> W0]
NOut(e)       == [k |-> "out", e |-> e, wc |-> W0]
Echo(e)      == [k |-> "echo", e |-> e, wc |-> W0]
Assign(n, e) == [k |-> "assign", n |-> n, e |-> e, wc |-> W0]
Capture(n, b) == [k |-> "capture", n |-> n, body |-> b, wc |-> W0, ewc |-> W0]
NoElse       == [has |-> FALSE, body |-> <<>>, wc |-> W0]
Else(b)      == [has |-> TRUE, body |-> b, wc |-> W0]
Elif(c, b)   == [c |-> c, body |-> b, wc |-> W0]
If(c, b, elifs, els) == [k |-> "if", c |-> c, body |-> b, elifs |-> elifs, else |-> els, wc |-> W0, ewc |-> W0]
Unless(c, b, elifs, els) == [k |-> "unless", c |-> c, body |-> b, elifs |-> elifs, else |-> els, wc |-> W0, ewc |-> W0]
When(es, b)  == [es |-> es, body |-> b, wc |-> W0]
Case(e, whens, els) == [k |-> "case", e |-> e, lead |-> "", whens |-> whens, else |-> els, wc |-> W0, ewc |-> W0]
NoOpt        == [has |-> FALSE, e |-> [k |-> "nil"], cont |-> FALSE]
Opt(e)       == [has |-> TRUE, e |-> e, cont |-> FALSE]
OptCont      == [has |-> TRUE, e |-> [k |-> "nil"], cont |-> TRUE]
For(n, it, itsrc, limit, offset, rev, b, els) ==
  [k |-> "for", n |-> n, it |-> it, itsrc |-> itsrc, limit |-> limit, offset |-> offset, rev |-> rev,
   body |-> b, else |-> els, wc |-> W0, ewc |-> W0]
Break        == [k |-> "break", wc |-> W0]
Continue     == [k |-> "continue", wc |-> W0]
Incr(n)      == [k |-> "incr", n |-> n, wc |-> W0]
Decr(n)      == [k |-> "decr", n |-> n, wc |-> W0]
Cycle(group, items, key) == [k |-> "cycle", group |-> group, items |-> items, key |-> key, wc |-> W0]
With(args, b) == [k |-> "with", args |-> args, body |-> b, wc |-> W0, ewc |-> W0]
WArg(n, e)   == [n |-> n, e |-> e]
Include(name, mode, var, alias, kwargs) ==
  [k |-> "include", name |-> name, mode |-> mode, var |-> var, alias |-> alias, kwargs |-> kwargs, wc |-> W0]
RenderT(name, mode, var, alias, kwargs) ==
  [k |-> "render", name |-> name, mode |-> mode, var |-> var, alias |-> alias, kwargs |-> kwargs, wc |-> W0]
Param(n)        == [n |-> n, has |-> FALSE, e |-> [k |-> "nil"]]
ParamD(n, e)    == [n |-> n, has |-> TRUE, e |-> e]
Macro(n, params, b) == [k |-> "macro", n |-> n, params |-> params, body |-> b, wc |-> W0, ewc |-> W0]
Call(n, args, kwargs) == [k |-> "call", n |-> n, args |-> args, kwargs |-> kwargs, wc |-> W0]

Fk(n, args, kw) == [n |-> n, args |-> args, kw |-> kw]        \* filter with keyword arguments
Lam(params, body) == [k |-> "lambda", params |-> params, body |-> body]
ArrLit(items) == [k |-> "arrlit", items |-> items]
TStr(parts, q) == [k |-> "tstr", parts |-> parts, q |-> q]
SQ(s, q) == [k |-> "str", v |-> s, q |-> q]
Path(segs) == [k |-> "var", segs |-> segs]
Key(s) == [t |-> "k", v |-> s]
KeyB(s) == [t |-> "k", v |-> s, br |-> TRUE]
Idx(i) == [t |-> "i", i |-> i]
IdxS(i) == [t |-> "i", i |-> i, sh |-> TRUE]        \* written .0 (migration.md "Shorthand array indexes")
Sub(segs) == [t |-> "p", p |-> segs]
TableRow(n, it, itsrc, limit, offset, cols, b) ==
  [k |-> "tablerow", n |-> n, it |-> it, itsrc |-> itsrc, limit |-> limit, offset |-> offset, rev |-> FALSE,
   cols |-> cols, body |-> b, wc |-> W0, ewc |-> W0]
\* a liquid tag: its body nodes are printed as line statements
LiquidTag(b) == [k |-> "liquid", body |-> b, wc |-> W0]

Extends(name) == [k |-> "extends", name |-> name, wc |-> W0]
Block(n, required, b) == [k |-> "block", n |-> n, required |-> required, body |-> b, endname |-> n, wc |-> W0, ewc |-> W0]

\* the same node with its tag-level name written as a quoted string
Quoted(n) == [qn |-> TRUE] @@ n

\* configuration record (defaults of Environment)
Cfg(trim, suppress, ae, undef) ==
  [trim |-> trim, suppress |-> suppress, autoescape |-> ae, undef |-> undef, depthlimit |-> 30, shopify |-> FALSE]
=============================================================================
