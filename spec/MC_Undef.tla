-------------------------------- MODULE MC_Undef --------------------------------
(* Focus "undef": every place a value can flow (output, filter input and        *)
(* arguments, conditions, comparisons, loop iterables, limit/offset, path       *)
(* segments, default filter, ternaries, partial arguments, case subjects)       *)
(* over data from which any subset of the referenced variables / properties     *)
(* has been deleted (C16).                                                       *)
EXTENDS LiquidGen, LiquidAst

Full == <<<<"x", Hash(<< <<"a", Hash(<< <<"b", Str("B")>> >>)>>, <<"n", Nil>>, <<"l", Arr(<<IntV(1), IntV(2)>>)>> >>)>>,
          <<"y", Str("Y")>>, <<"k", Str("a")>>>>
NoB  == <<<<"x", Hash(<< <<"a", Hash(<<>>)>>, <<"n", Nil>>, <<"l", Arr(<<>>)>> >>)>>, <<"y", Str("Y")>>, <<"k", Str("zz")>>>>
NoA  == <<<<"x", Hash(<< <<"n", Nil>> >>)>>, <<"y", Str("Y")>>>>
NoX  == <<<<"y", Str("Y")>>, <<"k", Str("a")>>>>
NoY  == <<<<"x", Hash(<< <<"a", Hash(<< <<"b", Str("B")>> >>)>>, <<"l", Arr(<<IntV(1)>>)>> >>)>>>>
None == <<>>
MCData == {<<d, <<>>, <<>>, <<>>>> : d \in {Full, NoB, NoA, NoX, NoY, None}}
MCCfgs == {Cfg("+", TRUE, FALSE, "default")}
MCPartials == << <<"p", <<NText("[p:"), NOut(P(V("v"))), NText("]")>>>>,
                 <<"q", <<NText("[q:"), If(FalseE, <<NOut(P(V("v")))>>, <<>>, NoElse), NText("]")>>>> >>

X == V("x")
Y == V("y")
XA == VP("x", "a")
XAB == [k |-> "var", segs |-> <<[t |-> "k", v |-> "x"], [t |-> "k", v |-> "a"], [t |-> "k", v |-> "b"]>>]
XL0 == [k |-> "var", segs |-> <<[t |-> "k", v |-> "x"], [t |-> "k", v |-> "l"], [t |-> "i", i |-> 0]>>]
XL9 == [k |-> "var", segs |-> <<[t |-> "k", v |-> "x"], [t |-> "k", v |-> "l"], [t |-> "i", i |-> 9]>>]
XN == VP("x", "n")
XK == [k |-> "var", segs |-> <<[t |-> "k", v |-> "x"], [t |-> "p", p |-> <<[t |-> "k", v |-> "k"]>>], [t |-> "k", v |-> "b"]>>]
Paths == {Y, XAB, XL0, XL9, XN, XK, VP("x", "l"), V("nosuch"), VP("y", "size"), VP("x", "size"), VP("nosuch", "first")}

Outs == {NOut(P(p)) : p \in Paths}
        \cup {NOut(F(p, <<Fl(f, <<>>)>>)) : p \in {Y, XAB, XL9, XN}, f \in {"upcase", "size", "first", "default", "join", "reverse", "escape", "abs", "strip"}}
        \cup {NOut(F(p, <<Fl("default", <<q>>)>>)) : p \in {XAB, XN, XL9}, q \in {S("d"), Y, XL9}}
        \cup {NOut(F(S("s"), <<Fl(f, <<q>>)>>)) : f \in {"append", "prepend", "plus", "split", "remove", "default"}, q \in {Y, XAB, XL9}}
        \cup {NOut(F(VP("x", "l"), <<Fl(f, <<q>>)>>)) : f \in {"join", "concat", "map", "where"}, q \in {Y, XL9}}
        \* a missing variable where a filter wants a number
        \cup {NOut(F(Y, <<Fl(f, <<q>>)>>)) : f \in {"truncate", "truncatewords", "slice", "round", "at_most", "times"}, q \in {XL0, XL9, V("nosuch")}}
        \cup {NOut(F(Y, <<Fl("slice", <<I(0), q>>)>>)) : q \in {XL0, XL9}}
        \cup {NOut(Tern(F(p, <<>>), c, alt, <<>>, <<>>)) : p \in {Y, XAB}, c \in {XL9, Y, Cmp("==", XAB, S("B"))}, alt \in {NoAltE, XL9, S("alt")}}
        \cup {NOut(P([k |-> "tstr", parts |-> <<S("<"), P(XAB), S(">")>>, q |-> "'"]))}
Conds == {Y, XAB, XL9, Not(XL9), Cmp("==", XAB, S("B")), Cmp("==", XL9, NilE), Cmp("!=", XL9, Y), Cmp("<", XL9, I(1)),
          Cmp("==", XL9, EmptyE), Cmp("==", XL9, FalseE), And(Y, XL9), Or(Y, XL9), Or(XL9, Y), Contains(XL9, S("a")), Contains(Y, XL9), In(XL9, Y)}
Tags == {If(c, <<NText("T")>>, <<>>, Else(<<NText("F")>>)) : c \in Conds}
        \cup {Unless(c, <<NText("T")>>, <<>>, NoElse) : c \in {XL9, Y}}
        \cup {Case(s, <<When(<<w>>, <<NText("W")>>)>>, Else(<<NText("E")>>)) : s \in {XAB, XL9}, w \in {S("B"), XL9, NilE}}
        \cup {For("i", it, ESrc(it), NoOpt, NoOpt, FALSE, <<NOut(P(V("i")))>>, Else(<<NText("none")>>)) : it \in {VP("x", "l"), XL9, V("nosuch"), XN}}
        \cup {For("i", RangeE(I(1), I(2)), "(1..2)", Opt(l), NoOpt, FALSE, <<NOut(P(V("i")))>>, NoElse) : l \in {XL0, XL9}}
        \cup {For("i", RangeE(I(1), b), ESrc(RangeE(I(1), b)), NoOpt, NoOpt, FALSE, <<NOut(P(V("i")))>>, NoElse) : b \in {XL0, XL9}}
        \cup {Assign("z", P(p)) : p \in {XAB, XL9}} \cup {NOut(P(V("z"))), Echo(P(XL9)), Cycle("", <<XL9, Y>>, "|c")}
        \cup {Include(S("p"), "none", NilE, "", <<WArg("v", p)>>) : p \in {XAB, XL9}}
        \cup {RenderT(S("p"), "with", p, "v", <<>>) : p \in {XAB, XL9}}
        \* partials, macros and inner loops inside a loop: with the full data nothing is missing
        \cup {For("i", VP("x", "l"), "x.l", NoOpt, NoOpt, FALSE, b, NoElse) :
                b \in {<<RenderT(S("p"), "none", NilE, "", <<WArg("v", V("i"))>>)>>, <<Include(S("p"), "none", NilE, "", <<WArg("v", V("i"))>>)>>,
                       <<Macro("m", <<Param("a")>>, <<NOut(P(V("a")))>>), Call("m", <<V("i")>>, <<>>)>>,
                       <<For("j", VP("x", "l"), "x.l", NoOpt, NoOpt, FALSE, <<NOut(P(V("j"))), NOut(P(Path(<<Key("forloop"), Key("parentloop"), Key("index")>>)))>>, NoElse)>>,
                       <<RenderT(S("p"), "for", VP("x", "l"), "v", <<>>)>>}}
        \* first / last / size of what is not a list: the pairs a hash iterates as, a range bound to a name
        \cup {For("p", X, "x", NoOpt, NoOpt, FALSE, <<NOut(P(VP("p", "first"))), NText(":"), NOut(P(VP("p", "size"))), NText(";")>>, NoElse),
              With(<<WArg("r", RangeE(I(1), I(3)))>>, <<NOut(P(VP("r", "first"))), NOut(P(VP("r", "last"))), NOut(P(VP("r", "size")))>>),
              With(<<WArg("r", RangeE(I(1), XL0))>>, <<NOut(P(VP("r", "last")))>>),
              NOut(P(Path(<<Key("x"), Key("first"), Key("first")>>))), NOut(P(Path(<<Key("x"), Key("l"), Key("last")>>)))}
        \* an undefined that is bound and never read, or read only where the render does not go
        \cup {With(<<WArg("w", XL9)>>, <<If(FalseE, <<NOut(P(V("w")))>>, <<>>, NoElse), NText("in")>>),
              RenderT(S("q"), "none", NilE, "", <<WArg("v", XL9), WArg("u", V("nosuch"))>>),
              Include(S("q"), "none", NilE, "", <<WArg("v", XL9)>>), RenderT(S("q"), "with", XL9, "v", <<>>)}
        \cup {Include(V("nosuch"), "none", NilE, "", <<>>), With(<<WArg("w", XL9)>>, <<NText("in"), NOut(P(Y))>>),
              With(<<WArg("w", XL9)>>, <<NOut(P(V("w")))>>), Capture("z", <<NOut(P(XL9))>>)}
MCPool == Outs \cup Tags

\* "probe": a name is first looked up while it is missing, then bound (include / render
\* argument, with, for, arrow-function parameter, assign, capture), then used
CONSTANT Variant    \* "single" | "probe"
Probes == {NOut(P(V("v"))), NOut(P(V("w"))), NOut(P(V("i"))), NOut(P(V("z"))), If(V("v"), <<NText("t")>>, <<>>, NoElse),
           NOut(F(V("v"), <<Fl("default", <<S("d")>>)>>))}
Binders == {Include(S("p"), "none", NilE, "", <<WArg("v", Y)>>), Include(S("p"), "with", Y, "v", <<>>),
            Include(S("p"), "for", VP("x", "l"), "v", <<>>), RenderT(S("p"), "with", Y, "v", <<>>),
            RenderT(S("p"), "none", NilE, "", <<WArg("v", XAB)>>),
            With(<<WArg("w", Y), WArg("v", XL9)>>, <<NOut(P(V("w"))), NOut(P(V("v")))>>),
            For("i", VP("x", "l"), "x.l", NoOpt, NoOpt, FALSE, <<NOut(P(V("i")))>>, NoElse),
            For("v", RangeE(I(1), I(2)), "(1..2)", NoOpt, NoOpt, FALSE, <<Include(S("p"), "none", NilE, "", <<>>)>>, NoElse),
            NOut(F(VP("x", "l"), <<Fl("map", <<Lam(<<"i">>, V("i"))>>), Fl("join", <<>>)>>)),
            NOut(F(VP("x", "l"), <<Fl("where", <<Lam(<<"v">>, V("v"))>>), Fl("join", <<>>)>>)),
            Assign("z", P(Y)), Capture("w", <<NText("cap")>>), Assign("v", P(XAB))}
MCPoolAt(i) ==
  IF Variant = "single" THEN MCPool
  ELSE CASE i = 1 -> Probes [] i = 2 -> Binders [] i = 3 -> Probes [] OTHER -> {}
=============================================================================
