-------------------------------- MODULE MC_Limits --------------------------------
(* Focus "limits" (C06): programs whose output, loop nests, partial/macro call       *)
(* graphs and local namespace consume the resources the environment can limit:       *)
(* multi-byte and CR/LF text through nested captures, blank (suppressed) blocks,     *)
(* loop nests of depth <= 4 spanning for / tablerow / include-for / render-for /     *)
(* macros and partials, with break; cyclic include / render graphs.  TLC exports     *)
(* the consumption measures of the unlimited render (LiquidSem!Measure).             *)
EXTENDS LiquidGen, LiquidAst

CONSTANT Variant    \* "output" | "loops" | "cycles" | "namespace"

R13 == RangeE(I(1), I(3))
R12 == RangeE(I(1), I(2))
Wide == Conc.wide[1].p \o Conc.wide[2].p \o Conc.wide[3].p       \* 2 + 3 + 4 bytes
Tick == NText("x")
ForN(n, it, b) == For(n, it, ESrc(it), NoOpt, NoOpt, FALSE, b, NoElse)

\* partial templates
Part == << <<"w", <<NText("w" \o Wide)>>>>,
           <<"lp", <<ForN("k", R12, <<Tick>>)>>>>,                              \* a loop inside a partial
           <<"lp3", <<ForN("k", R13, <<Tick, If(Cmp("==", V("k"), I(2)), <<Break>>, <<>>, NoElse)>>)>>>>,
           <<"it", <<Tick, NOut(P(V("it")))>>>>,                                 \* body of include/render ... for
           <<"itl", <<ForN("k", R12, <<Tick>>)>>>>,                             \* ... for, with a loop inside
           <<"itr", <<Tick, RenderT(S("w"), "none", NilE, "", <<>>)>>>>,                   \* ... for, with a render inside (one more copy)
           <<"itrl", <<RenderT(S("lp"), "none", NilE, "", <<>>)>>>>,
           \* a chain of renders long enough for the number of context copies (not the scope stack of one
           \* template) to be what a small depth limit cuts
           <<"c1", <<RenderT(S("c2"), "none", NilE, "", <<>>)>>>>, <<"c2", <<RenderT(S("c3"), "none", NilE, "", <<>>)>>>>,
           <<"c3", <<RenderT(S("c4"), "none", NilE, "", <<>>)>>>>, <<"c4", <<RenderT(S("c5"), "none", NilE, "", <<>>)>>>>,
           <<"c5", <<RenderT(S("c6"), "for", R12, "", <<>>)>>>>, <<"c6", <<RenderT(S("c7"), "none", NilE, "", <<>>)>>>>,
           <<"c7", <<Tick>>>>,
           \* assignments at every level of a chain of isolated contexts (namespace limit)
           <<"n1", <<Assign("b1", P(S("level-one-value"))), RenderT(S("n2"), "none", NilE, "", <<>>), NOut(P(V("b1")))>>>>,
           <<"n2", <<Assign("b2", P(S("level-two"))), Capture("b3", <<NText("captured at level two")>>), Call("nm", <<>>, <<>>), NOut(P(V("b2")))>>>>,
           <<"itb", <<Tick, If(Cmp("==", V("itb"), I(2)), <<Break>>, <<>>, NoElse)>>>>,   \* leaves the enclosing loop from inside the partial
           <<"itc", <<If(Cmp("==", V("itc"), I(1)), <<Continue>>, <<>>, NoElse), Tick>>>>,
           <<"self", <<NText("s"), Include(S("self"), "none", NilE, "", <<>>)>>>>,
           <<"ra", <<NText("a"), RenderT(S("rb"), "none", NilE, "", <<>>)>>>>,
           <<"rb", <<NText("b"), RenderT(S("ra"), "none", NilE, "", <<>>)>>>>,
           <<"ia", <<NText("a"), Include(S("ib"), "none", NilE, "", <<>>)>>>>,
           <<"ib", <<NText("b"), RenderT(S("ia"), "none", NilE, "", <<>>)>>>>,
           <<"xa", <<Extends("xb"), Block("z", FALSE, <<NText("za")>>)>>>>,
           <<"xb", <<Extends("xa"), Block("z", FALSE, <<NText("zb")>>)>>>>,
           \* a template that extends a layout and includes itself from the block it overrides
           <<"lay", <<NText("["), Block("z", FALSE, <<NText("lz")>>), NText("]")>>>>,
           <<"xs", <<Extends("lay"), Block("z", FALSE, <<NText("s"), Include(S("xs"), "none", NilE, "", <<>>)>>)>>>>,
           <<"xr", <<Extends("lay"), Block("z", FALSE, <<NText("r"), RenderT(S("xr"), "none", NilE, "", <<>>)>>)>>>>,
           \* loops around `block.super` over a parent block that loops: one nest across the chain
           <<"lb", <<NText("["), Block("z", FALSE, <<ForN("k", R12, <<Tick>>)>>), NText("]")>>>>,
           <<"xl", <<Extends("lb"), Block("z", FALSE, <<ForN("i", R13, <<NOut(P(VP("block", "super"))), NText("|")>>)>>)>>>>,
           <<"xm", <<Extends("xl"), Block("z", FALSE, <<ForN("j", R12, <<NOut(P(VP("block", "super"))), NText(";")>>)>>)>>>> >>
MCPartials == Part
\* (Conc.wide[8]: a lone surrogate, which JSON data may hold - three bytes where it can be encoded at all)
MCData == { << <<<<"arr", Arr(<<IntV(1), IntV(2), IntV(3)>>)>>, <<"s", Str("d" \o Wide \o Conc.wide[8].p \o "\r\n")>>>>, <<>>, <<>>, <<>> >> }
MCCfgs == {[Cfg("+", sup, FALSE, "default") EXCEPT !.shopify = TRUE] : sup \in BOOLEAN}

OutLeaves == {NText("ab"), NText(Wide), NText("a\r\nb\rc\n"), NOut(P(V("s"))), NOut(P(V("c"))), NOut(P(V("d"))), Incr("n"),
              Capture("c", <<NText("cap" \o Wide)>>),
              Capture("c", <<NText("o\r\n"), Capture("d", <<NText("inner" \o Wide), NOut(P(V("s")))>>), NOut(P(V("d"))), NText("t")>>),
              Capture("c", <<NOut(P(V("c"))), NOut(P(V("c"))), NText("+")>>),
              If(TrueE, <<NText(" "), Capture("c", <<NText("blankcap")>>), NText(" ")>>, <<>>, NoElse),
              If(TrueE, <<NText("  \n")>>, <<>>, NoElse),
              ForN("i", R13, <<NOut(P(V("i"))), NText(Wide)>>),
              Include(S("w"), "none", NilE, "", <<>>), RenderT(S("w"), "none", NilE, "", <<>>),
              Macro("m", <<Param("a")>>, <<NText("m"), NOut(P(V("a")))>>), Call("m", <<S("arg" \o Wide)>>, <<>>),
              Assign("c", P(S("assigned"))), Assign("d", F(V("s"), <<Fl("append", <<V("s")>>)>>))}

\* loop-like constructs wrapped around a body
Wrap(kind, b) ==
  CASE kind = "for"      -> ForN("i", R13, b)
    [] kind = "for2"     -> ForN("j", R12, b)
    [] kind = "forarr"   -> ForN("a", V("arr"), b)
    [] kind = "tablerow" -> TableRow("t", R12, "(1..2)", NoOpt, NoOpt, NoOpt, b)
    [] kind = "forbreak" -> ForN("i", R13, b \o <<If(Cmp("==", V("i"), I(2)), <<Break>>, <<>>, NoElse)>>)
    [] kind = "cap"      -> Capture("c", b)
    [] kind = "if"       -> If(TrueE, b, <<>>, NoElse)
Inner == {<<Tick>>, <<Include(S("lp"), "none", NilE, "", <<>>)>>, <<RenderT(S("lp"), "none", NilE, "", <<>>)>>,
          <<Include(S("it"), "for", V("arr"), "", <<>>)>>, <<RenderT(S("it"), "for", R12, "", <<>>)>>,
          <<RenderT(S("itl"), "for", R12, "", <<>>)>>, <<Include(S("itl"), "for", R12, "", <<>>)>>,
          <<RenderT(S("lp3"), "none", NilE, "", <<>>)>>, <<Call("lm", <<>>, <<>>)>>}
Kinds == {"for", "for2", "forarr", "tablerow", "forbreak", "cap", "if"}
Nests == {Wrap(k1, b) : k1 \in Kinds, b \in Inner}
         \cup {Wrap(k1, <<Wrap(k2, b)>>) : k1 \in {"for", "tablerow", "forbreak"}, k2 \in {"for2", "tablerow", "forbreak", "cap"}, b \in Inner}
         \cup {Wrap("for", <<Wrap("for2", <<Wrap("tablerow", b)>>)>>) : b \in {<<Tick>>, <<RenderT(S("lp"), "none", NilE, "", <<>>)>>}}
         \cup {Include(S("itl"), "for", V("arr"), "", <<>>), RenderT(S("itl"), "for", V("arr"), "", <<>>)}
         \cup {RenderT(S(t), "for", R12, "", <<>>) : t \in {"itr", "itrl"}} \cup {Include(S(t), "for", R12, "", <<>>) : t \in {"itr", "itrl"}}
         \cup {Wrap("for", <<RenderT(S(t), "for", R12, "", <<>>)>>) : t \in {"itr", "itrl"}}
         \cup {RenderT(S(t), "for", R12, "", <<>>) : t \in {"c1", "c3", "c6"}} \cup {RenderT(S(t), "none", NilE, "", <<>>) : t \in {"c1", "c4"}}
         \cup {Include(S("c2"), "for", R12, "", <<>>)}
         \cup {Include(S(t), "none", NilE, "", <<>>) : t \in {"xl", "xm"}} \cup {RenderT(S(t), "none", NilE, "", <<>>) : t \in {"xl", "xm"}}
         \cup {Wrap(k1, <<Include(S("xl"), "none", NilE, "", <<>>)>>) : k1 \in {"for2", "tablerow"}}
         \* an interrupt raised inside `include ... for` / tablerow nested in a loop, then another loop
         \cup {Wrap("if", <<Wrap(k1, <<Include(S(pt), "for", V("arr"), "", <<>>)>>), ForN("z", R13, <<Tick>>)>>) :
                 k1 \in {"for", "for2"}, pt \in {"itb", "itc"}}
         \cup {Wrap("if", <<Wrap("for", <<Wrap("tablerow", <<Tick, Break>>)>>), ForN("z", R13, <<Tick>>)>>),
               Wrap("if", <<Wrap("for", <<TableRow("t", R12, "(1..2)", NoOpt, NoOpt, NoOpt, <<Continue, Tick>>)>>), ForN("z", R13, <<Tick>>)>>)}

NsProgs == {RenderT(S("n1"), "none", NilE, "", <<>>), RenderT(S("n2"), "none", NilE, "", <<>>),
            Call("nm", <<>>, <<>>), Assign("c", P(S("a-top-level-value"))), Capture("d", <<NText("top capture")>>),
            ForN("i", R12, <<Assign("e", P(V("i"))), RenderT(S("n2"), "none", NilE, "", <<>>)>>),
            \* two names for one value (an alias; the same small constant twice): each name holds it
            If(TrueE, <<Assign("c", P(S("a-top-level-value"))), Assign("c2", P(V("c")))>>, <<>>, NoElse),
            Assign("f", P(I(7))), Assign("g", P(I(7)))}
Cycles == {Include(S("self"), "none", NilE, "", <<>>), RenderT(S("ra"), "none", NilE, "", <<>>), Include(S("ia"), "none", NilE, "", <<>>),
           RenderT(S("self"), "none", NilE, "", <<>>), Include(S("xa"), "none", NilE, "", <<>>), RenderT(S("xa"), "none", NilE, "", <<>>),
           ForN("i", R12, <<RenderT(S("ra"), "none", NilE, "", <<>>)>>),
           Include(S("xs"), "none", NilE, "", <<>>), RenderT(S("xs"), "none", NilE, "", <<>>), Include(S("xr"), "none", NilE, "", <<>>)}

MCPoolAt(i) ==
  CASE Variant = "output" -> OutLeaves
    [] Variant = "loops"  -> (IF i = 1 THEN {Macro("lm", <<>>, <<ForN("k", R12, <<Tick>>)>>)} ELSE Nests)
    [] Variant = "cycles" -> (IF i = 1 THEN {NText("pre")} ELSE Cycles)
    [] Variant = "namespace" -> (IF i = 1 THEN {Macro("nm", <<>>, <<Assign("m1", P(S("inside-the-macro"))), NOut(P(V("m1")))>>)} ELSE NsProgs)
=============================================================================
