-------------------------------- MODULE MC_Exprs --------------------------------
(* Focus "exprs": every expression form of the language - nil/empty/blank and     *)
(* number/string literals in both quote styles, dotted / bracketed / quoted /     *)
(* nested path segments, ranges, array literals, filters with several positional  *)
(* and keyword arguments, lambdas, ternaries with branch and tail filters,        *)
(* template strings - inside output, echo, assign, liquid-tag line statements,    *)
(* the three comment kinds, raw, and the Shopify tablerow tag (C12, C01, C11).    *)
EXTENDS LiquidGen, LiquidAst

X == V("x")
Y == V("y")
MCData == {<< <<<<"x", Hash(<< <<"a", Arr(<<IntV(1), IntV(2), IntV(3)>>)>>, <<"a b", Str("sp")>>, <<"k", Str("a")>>,
                               <<"h", Hash(<< <<"b", Str("hb")>> >>)>> >>)>>,
               <<"y", vy>>, <<"k", Str("a")>>,
               <<"hs", Arr(<<Hash(<< <<"a", IntV(1)>>, <<"t", Str("u")>> >>), Hash(<< <<"a", IntV(2)>>, <<"t", Str("v")>> >>)>>)>>>>,
             <<>>, <<>>, <<>> >> : vy \in {Str("Yy"), Nil, IntV(3)}}
MCCfgs == {[Cfg("+", TRUE, FALSE, "default") EXCEPT !.shopify = TRUE]}
MCPartials == <<>>

Floats == {FloatE("1.5", 15, 1), FloatE("2.50", 250, 2), FloatE("-0.25", -25, 2), FloatE("3.0", 30, 1), FloatE("1.5e1", 15, 0), FloatE("2e-1", 2, 1),
           FloatE("0.1", 1, 1)}
Prims == Floats \cup {NilE, TrueE, FalseE, EmptyE, BlankE, I(0), I(-7), I(42), S("sq"), SQ("dq", "\""), SQ("it's", "\""), SQ("say \"hi\"", "'"),
          X, Y, VP("x", "k"), Path(<<Key("x"), KeyB("a b")>>), Path(<<Key("x"), Key("a"), Idx(0)>>),
          Path(<<Key("x"), Key("a"), Idx(-1)>>), Path(<<Key("x"), Sub(<<Key("k")>>), Idx(1)>>),
          Path(<<Key("x"), Sub(<<Key("x"), Key("k")>>)>>), Path(<<Key("x"), KeyB("h"), Key("b")>>),
          Path(<<Key("x"), Key("a"), Key("size")>>), Path(<<Key("x"), Key("a"), Key("first")>>), Path(<<Key("x"), Key("a"), Key("last")>>),
          RangeE(I(1), I(3)), RangeE(I(1), Path(<<Key("x"), Key("a"), Idx(1)>>)), RangeE(Y, I(4)),
          TStr(<<S("a"), P(Y), S("b")>>, "\""), TStr(<<P(X), S("!")>>, "'"),
          TStr(<<S("<"), F(Y, <<Fl("upcase", <<>>), Fl("append", <<S("x")>>)>>), S(">")>>, "\"")}
ArrLits == {ArrLit(<<I(1), I(2)>>), ArrLit(<<S("a"), Y, NilE>>), ArrLit(<<X, RangeE(I(1), I(2))>>)}

Filters == {<<Fl("upcase", <<>>)>>, <<Fl("append", <<S("!")>>)>>, <<Fl("append", <<Y>>), Fl("prepend", <<S(">")>>), Fl("size", <<>>)>>,
            <<Fk("default", <<S("d")>>, <<WArg("allow_false", TrueE)>>)>>, <<Fl("default", <<Y>>)>>,
            <<Fl("slice", <<I(1), I(2)>>)>>, <<Fl("replace", <<S("a"), S("b")>>)>>, <<Fl("truncate", <<I(5), S("..")>>)>>,
            <<Fl("join", <<S(", ")>>)>>, <<Fl("split", <<S("")>>), Fl("join", <<S("-")>>)>>, <<Fl("plus", <<I(-1)>>), Fl("times", <<Y>>)>>,
            <<Fl("at_least", <<I(0)>>)>>, <<Fl("plus", <<FloatE("0.2", 2, 1)>>)>>, <<Fl("round", <<I(1)>>)>>, <<Fl("floor", <<>>)>>,
            <<Fl("times", <<FloatE("1.5", 15, 1)>>), Fl("minus", <<I(1)>>)>>, <<Fl("json", <<>>)>>, <<Fl("first", <<>>)>>, <<Fl("concat", <<Path(<<Key("x"), Key("a")>>)>>)>>}
LamFilters == {<<Fl("map", <<Lam(<<"i">>, VP("i", "a"))>>)>>, <<Fl("map", <<S("t")>>), Fl("join", <<S("+")>>)>>,
               <<Fl("where", <<Lam(<<"i">>, Cmp("==", VP("i", "a"), I(1)))>>), Fl("map", <<S("t")>>)>>,
               <<Fl("where", <<S("a"), I(2)>>), Fl("map", <<S("t")>>)>>,
               <<Fl("find", <<Lam(<<"i">>, Cmp(">", VP("i", "a"), I(1)))>>)>>,
               <<Fl("sort", <<S("t")>>), Fl("map", <<Lam(<<"i", "n">>, V("n"))>>)>>,
               <<Fl("reject", <<Lam(<<"i">>, And(VP("i", "a"), Cmp("==", VP("i", "t"), S("u"))))>>), Fl("size", <<>>)>>,
               <<Fl("sum", <<S("a")>>)>>, <<Fl("has", <<S("a"), I(2)>>)>>, <<Fl("uniq", <<S("t")>>), Fl("size", <<>>)>>}

Exprs == {P(p) : p \in Prims \cup ArrLits}
         \cup {F(p, fs) : p \in {X, Y, S("abcdef"), I(5), VP("x", "a"), NilE}, fs \in Filters}
         \cup {F(ArrLit(<<S("b"), S("a")>>), <<Fl("join", <<S("/")>>)>>)}
         \cup {F(V("hs"), fs) : fs \in LamFilters}
         \cup {Tern(F(S("T"), <<>>), c, NoAltE, <<>>, <<>>) : c \in {Y, Cmp("==", Y, NilE), Not(Y), And(Y, Or(X, FalseE))}}
         \cup {Tern(F(Y, <<Fl("upcase", <<>>)>>), c, alt, altf, tail) :
                 c \in {Y, Contains(VP("x", "a"), I(2))}, alt \in {S("alt"), VP("x", "k")},
                 altf \in {<<>>, <<Fl("append", <<S("1")>>), Fl("upcase", <<>>)>>},
                 tail \in {<<>>, <<Fl("prepend", <<S("[")>>), Fl("append", <<S("]")>>)>>}}

Line == {Assign("z", e) : e \in {P(I(1)), F(Y, <<Fl("default", <<S("d")>>)>>), P(RangeE(I(1), I(2))), P(ArrLit(<<I(1), I(2)>>))}}
        \cup {Echo(P(V("z"))), Echo(F(Y, <<Fl("append", <<S("!")>>)>>)), Incr("c"), Comment("hash", "line comment"),
              If(Y, <<Echo(P(S("T")))>>, <<Elif(X, <<Echo(P(S("E")))>>)>>, Else(<<Echo(P(S("F")))>>)),
              For("i", RangeE(I(1), I(2)), "(1..2)", NoOpt, NoOpt, FALSE, <<Echo(P(V("i"))), Cycle("", <<S("a"), S("b")>>, "|a,b")>>, NoElse),
              Case(Y, <<When(<<I(3), NilE>>, <<Echo(P(S("w")))>>)>>, Else(<<Echo(P(S("e")))>>)),
              Capture("z", <<Echo(P(S("cap")))>>), With(<<WArg("w", I(1))>>, <<Echo(P(V("w")))>>)}
Liquids == {LiquidTag(<<a, b>>) : a \in Line, b \in Line}

Others == {Comment("hash", " c "), Comment("inline", "c"), Comment("block", " c {% if %} "), Raw("{{ r }} {% t %}"),
           [k |-> "comment", kind |-> "hash", v |-> " nested {# x #} ", wc |-> W0, hashes |-> 2],
           TableRow("i", VP("x", "a"), "x.a", NoOpt, NoOpt, Opt(I(2)), <<NOut(P(V("i")))>>),
           TableRow("i", RangeE(I(1), I(4)), "(1..4)", Opt(I(3)), Opt(I(1)), NoOpt, <<NOut(P(VP("tablerowloop", "col"))), NOut(P(VP("tablerowloop", "row")))>>),
           Cycle("g", <<I(1), S("b"), Y>>, "g|1,b,y"), Cycle("", <<S("a")>>, "|a"),
           For("i", VP("x", "a"), "x.a", Opt(I(2)), Opt(I(1)), TRUE, <<NOut(P(V("i")))>>, Else(<<NText("none")>>)),
           For("i", VP("x", "a"), "x.a", NoOpt, OptCont, FALSE, <<NOut(P(V("i")))>>, NoElse),
           Case(Y, <<When(<<I(3), S("Yy")>>, <<NText("w1")>>), When(<<NilE>>, <<NText("w2")>>)>>, Else(<<NText("e")>>)),
           Unless(Y, <<NText("u")>>, <<Elif(X, <<NText("ue")>>)>>, Else(<<NText("uf")>>)),
           Macro("m", <<Param("a"), ParamD("b", S("dflt"))>>, <<NOut(P(V("a"))), NOut(P(V("b"))), NOut(P(V("args"))), NOut(P(VP("kwargs", "z")))>>),
           Call("m", <<I(1)>>, <<>>), Call("m", <<I(1), I(2), I(3)>>, <<WArg("z", S("kw"))>>), Call("m", <<>>, <<WArg("b", Y), WArg("a", X)>>),
           With(<<WArg("a", I(1)), WArg("b", Y)>>, <<NOut(P(V("a"))), NOut(P(V("b")))>>),
           \* tag-level names written as quoted strings
           Quoted(Incr("c")), Quoted(Decr("c")), Quoted(Cycle("g", <<I(1), S("b")>>, "g|1,b")),
           Quoted(Macro("qm", <<Param("a")>>, <<NOut(P(V("a")))>>)), Quoted(Call("m", <<I(1)>>, <<>>)),
           Quoted(Block("blk", FALSE, <<NText("in block")>>))}

MCPool == {NOut(e) : e \in Exprs} \cup {Assign("z", e) : e \in {P(p) : p \in Prims}} \cup {Echo(e) : e \in {P(p) : p \in ArrLits}}
          \cup Liquids \cup Others \cup {NOut(P(V("z"))), NText(" t ")}
MCPoolAt(i) == MCPool
=============================================================================
