------------------------------ MODULE LiquidLexer ------------------------------
(***************************************************************************)
(* The lexical scanner of python-liquid2 (liquid2/lexer.py) as a step      *)
(* machine, written the way the code works: one action per iteration of a  *)
(* state function (lex_markup, lex_inside_output_statement, lex_inside_tag,*)
(* lex_inside_liquid_tag, lex_inside_line_statement,                       *)
(* lex_inside_block_comment, lex_inside_liquid_block_comment), the same    *)
(* pointers (pos, start, markup_start, line_start), the same accumulators  *)
(* (wc, tag_name, expression, line_statements, markup).                    *)
(*                                                                         *)
(* The source text is state too: a build phase appends one symbol of the   *)
(* alphabet per step (between a fixed prefix and suffix), so TLC visits    *)
(* every source of the bound and runs the machine on each.                 *)
(*                                                                         *)
(* TLC checks on the machine (C17 as a statement about the design):        *)
(*   PointersOK    0 <= start <= pos <= L at every step                    *)
(*   PrefixTiling  the tokens emitted so far tile the source from 0 up to  *)
(*                 where the open markup began                             *)
(*   Nested        expression tokens / line statements lie inside the      *)
(*                 markup that is being scanned, in order, not overlapping *)
(*   FinalTiling   at the end the tokens partition the whole source        *)
(*   Progress      every step moves pos forward or ends the scan           *)
(* and exports, per source, the token list (kind, span, whitespace control,*)
(* tag name, children) or "error"; the harness requires tokenize() of the  *)
(* library to produce exactly that (S->C, harness/lexer.py).               *)
(*                                                                         *)
(* Offsets are 0-based and half open, as the library reports them; the     *)
(* character at offset p is cs[p + 1].  The expression-level alphabet is   *)
(* restricted (see Known): variable paths are in (accept_path: dotted and *)
(* bracketed segments, nested paths, shorthand indexes), ranges, escapes   *)
(* and `${` are outside this machine (they are judged by Trace_Tokens on   *)
(* recorded streams and by LiquidLit).                                     *)
(*                                                                         *)
(* The intended design where the pinned code deviated (both found by this  *)
(* machine and repaired in /repo, see DESIGN 0.4):                         *)
(*   inside `{% liquid %}` the lines of a comment ... endcomment block may *)
(*   be indented like every other line of the tag;                         *)
(*   the last line statement of a liquid tag that ends on the line of `%}` *)
(*   ends before the closing delimiter, as it does before a line break.    *)
(***************************************************************************)
EXTENDS Integers, Sequences, TLC, Json, IOUtils

CONSTANTS Alphabet,     \* sequence of symbol texts
          MaxLen,       \* symbols per source
          Prefix, Suffix, Focus,
          Shorthand     \* Environment.shorthand_indexes: `a.0` is `a[0]`

VARIABLES phase,        \* "build" | "lex"
          text, cs, n,  \* the source as a string, as characters, symbols appended
          mode,         \* the current state function, or "done" / "error"
          pos, start, mstart, lstart,
          wc, tag, expr, lines, toks,
          cd, rd        \* comment / raw nesting depth inside a block comment

vars == <<phase, text, cs, n, mode, pos, start, mstart, lstart, wc, tag, expr, lines, toks, cd, rd>>
lexvars == <<mode, pos, start, mstart, lstart, wc, tag, expr, lines, toks, cd, rd>>

Chars(s) == [i \in 1..Len(s) |-> SubSeq(s, i, i)]

\* ---- character classes ----------------------------------------------------
WS        == {" ", "\n", "\r", "\t"}
LINESPACE == {" ", "\t"}
WC        == {"-", "+", "~"}
Lower     == {"a","b","c","d","e","f","g","h","i","j","k","l","m","n","o","p","q","r","s","t","u","v","w","x","y","z"}
Digits    == {"0","1","2","3","4","5","6","7","8","9"}
NameRest  == Lower \cup Digits \cup {"_"}
WordStart == Lower \cup {"_"}
WordRest  == WordStart \cup Digits \cup {"-"}
WordCh    == Lower \cup Digits \cup {"_"}            \* \w, for \b
Quotes    == {"'", "\""}
\* the characters this machine gives a meaning to; a source with any other is not generated
Known     == WS \cup WC \cup Lower \cup Digits \cup Quotes \cup {"_", "{", "}", "%", "#", "|", ":", ",", ".", "[", "]"}

Keywords == [true |-> "TRUE", false |-> "FALSE", and |-> "AND_WORD", or |-> "OR_WORD", in |-> "IN",
             not |-> "NOT_WORD", contains |-> "CONTAINS", nil |-> "NULL", null |-> "NULL", if |-> "IF",
             else |-> "ELSE", with |-> "WITH", required |-> "REQUIRED", as |-> "AS", for |-> "FOR"]

\* ---- reading the source ---------------------------------------------------
L == Len(cs)
At(p) == IF p >= 0 /\ p < L THEN cs[p + 1] ELSE ""

RECURSIVE RunEnd(_, _)          \* first offset >= p whose character is not in S
RunEnd(p, S) == IF At(p) \in S THEN RunEnd(p + 1, S) ELSE p

Lit(p, s) == \A i \in 1..Len(s) : At(p + i - 1) = s[i]

RECURSIVE Join(_, _, _)         \* the text of cs[a .. b)
Join(a, b, acc) == IF a >= b THEN acc ELSE Join(a + 1, b, acc \o At(a))
Slice(a, b) == Join(a, b, "")

kwRaw == Chars("raw")  kwEndraw == Chars("endraw")
kwComment == Chars("comment")  kwEndcomment == Chars("endcomment")

WcAt(p) == IF At(p) \in WC THEN At(p) ELSE ""
PctBrace(p) == At(p) = "%" /\ At(p + 1) = "}"

\* `\{%([-+~]?)\s*`
TagHead(p) == IF At(p) = "{" /\ At(p + 1) = "%"
           THEN [ok |-> TRUE, w |-> WcAt(p + 2), q |-> RunEnd(p + 2 + Len(WcAt(p + 2)), WS)]
           ELSE [ok |-> FALSE, w |-> "", q |-> p]

\* `([-+~]?)%\}` at p
TagEnd(p) == IF PctBrace(p + Len(WcAt(p))) THEN [ok |-> TRUE, w |-> WcAt(p), e |-> p + Len(WcAt(p)) + 2]
             ELSE [ok |-> FALSE, w |-> "", e |-> p]
\* `([-+~]?)\}\}` at p
OutEnd(p) == LET q == p + Len(WcAt(p)) IN
             IF At(q) = "}" /\ At(q + 1) = "}" THEN [ok |-> TRUE, w |-> WcAt(p), e |-> q + 2]
             ELSE [ok |-> FALSE, w |-> "", e |-> p]

\* `\{%([-+~]?)\s*kw\s*([-+~]?)%\}`
RawDelim(p, kw) ==
  LET h == TagHead(p) IN
  IF h.ok /\ Lit(h.q, kw)
  THEN LET c == TagEnd(RunEnd(h.q + Len(kw), WS)) IN [ok |-> c.ok, w0 |-> h.w, w1 |-> c.w, e |-> c.e]
  ELSE [ok |-> FALSE, w0 |-> "", w1 |-> "", e |-> p]

RECURSIVE FindEndraw(_)
FindEndraw(p) == IF p >= L THEN -1 ELSE IF RawDelim(p, kwEndraw).ok THEN p ELSE FindEndraw(p + 1)

RECURSIVE FindClose(_)          \* first `%}` at or after p
FindClose(p) == IF p >= L THEN -1 ELSE IF PctBrace(p) THEN p ELSE FindClose(p + 1)

\* ---- the alternatives of MARKUP_RULES, in the order the code tries them ----
NoMatch == [ok |-> FALSE]

MRaw(p) ==
  LET o == RawDelim(p, kwRaw) IN
  IF ~o.ok THEN NoMatch ELSE
  LET j == FindEndraw(o.e) IN
  IF j = -1 THEN NoMatch ELSE
  LET c == RawDelim(j, kwEndraw) IN
  [ok |-> TRUE, e |-> c.e, wcs |-> <<o.w0, o.w1, c.w0, c.w1>>, ta |-> o.e, tb |-> j]

MCommentTag(p) ==
  LET h == TagHead(p) IN
  IF h.ok /\ Lit(h.q, kwComment) /\ At(h.q + 7) \notin WordCh /\ FindClose(h.q + 7) # -1
  THEN [ok |-> TRUE, e |-> FindClose(h.q + 7) + 2, w |-> h.w]
  ELSE NoMatch

MOutput(p) ==
  IF At(p) = "{" /\ At(p + 1) = "{"
  THEN [ok |-> TRUE, e |-> RunEnd(p + 2 + Len(WcAt(p + 2)), WS), w |-> WcAt(p + 2)]
  ELSE NoMatch

MTag(p) ==
  LET h == TagHead(p) IN
  IF h.ok /\ At(h.q) \in Lower
  THEN [ok |-> TRUE, e |-> RunEnd(h.q + 1, NameRest), w |-> h.w, name |-> Slice(h.q, RunEnd(h.q + 1, NameRest))]
  ELSE NoMatch

\* `\{(#+)([-+~]?)(.*?)([-+~]?)\1\}` with the backtracking order of the regex engine
CloseAt(x, h) == (\A i \in 0..(h - 1) : At(x + i) = "#") /\ At(x + h) = "}"
RECURSIVE CTextEnd(_, _)
CTextEnd(e, h) == IF e > L THEN -1
                  ELSE IF (At(e) \in WC /\ CloseAt(e + 1, h)) \/ CloseAt(e, h) THEN e
                  ELSE CTextEnd(e + 1, h)
CTry(p, h, w0) ==
  LET t == p + 1 + h + Len(w0)
      e == CTextEnd(t, h) IN
  IF e = -1 THEN NoMatch
  ELSE LET w1 == IF At(e) \in WC /\ CloseAt(e + 1, h) THEN At(e) ELSE "" IN
       [ok |-> TRUE, e |-> e + Len(w1) + h + 1, wcs |-> <<w0, w1>>]
RECURSIVE CMatch(_, _)
CMatch(p, h) ==
  IF h = 0 THEN NoMatch ELSE
  LET a == IF At(p + 1 + h) \in WC THEN CTry(p, h, At(p + 1 + h)) ELSE NoMatch
      b == CTry(p, h, "") IN
  IF a.ok THEN a ELSE IF b.ok THEN b ELSE CMatch(p, h - 1)
MComment(p) == IF At(p) = "{" /\ At(p + 1) = "#" THEN CMatch(p, RunEnd(p + 1, {"#"}) - (p + 1)) ELSE NoMatch

\* `\{%([-+~]?)\s*#(.*?)([-+~]?)%\}`
RECURSIVE ITextEnd(_)
ITextEnd(e) == IF e >= L THEN -1
               ELSE IF (At(e) \in WC /\ PctBrace(e + 1)) \/ PctBrace(e) THEN e
               ELSE ITextEnd(e + 1)
MInline(p) ==
  LET h == TagHead(p) IN
  IF h.ok /\ At(h.q) = "#" /\ ITextEnd(h.q + 1) # -1
  THEN LET e == ITextEnd(h.q + 1)
           w1 == IF At(e) \in WC /\ PctBrace(e + 1) THEN At(e) ELSE "" IN
       [ok |-> TRUE, e |-> e + Len(w1) + 2, wcs |-> <<h.w, w1>>]
  ELSE NoMatch

\* `.+?(?=(\{\{|\{%|\{#+|\Z))`
RECURSIVE ContentEnd(_)
ContentEnd(e) == IF e >= L THEN L
                 ELSE IF At(e) = "{" /\ At(e + 1) \in {"{", "%", "#"} THEN e
                 ELSE ContentEnd(e + 1)

Kind(p) == IF p >= L THEN "end"
           ELSE IF MRaw(p).ok THEN "raw"
           ELSE IF MCommentTag(p).ok THEN "commenttag"
           ELSE IF MOutput(p).ok THEN "output"
           ELSE IF MTag(p).ok THEN "tag"
           ELSE IF MComment(p).ok THEN "comment"
           ELSE IF MInline(p).ok THEN "inline"
           ELSE "content"

\* ---- TOKEN_RULES on the restricted expression alphabet ---------------------
NumEnd(p) ==   \* FLOAT `-?[0-9]+\.[0-9]+(?:[eE][+-]?[0-9]+)?` | `-?[0-9]+[eE]-[0-9]+`, INT `-?[0-9]+(?:[eE]\+?[0-9]+)?`
  LET s == IF At(p) = "-" THEN p + 1 ELSE p
      d == RunEnd(s, Digits)
      f == RunEnd(d + 1, Digits)          \* end of the fraction, if At(d) = "."
  IN
  IF d = s THEN [ok |-> FALSE, k |-> "", e |-> p]
  ELSE IF At(d) = "." /\ f > d + 1 THEN
       (IF At(f) = "e" /\ At(f + 1) = "-" /\ RunEnd(f + 2, Digits) > f + 2 THEN [ok |-> TRUE, k |-> "FLOAT", e |-> RunEnd(f + 2, Digits)]
        ELSE IF At(f) = "e" /\ RunEnd(f + 1, Digits) > f + 1 THEN [ok |-> TRUE, k |-> "FLOAT", e |-> RunEnd(f + 1, Digits)]
        ELSE [ok |-> TRUE, k |-> "FLOAT", e |-> f])
  ELSE IF At(d) = "e" /\ At(d + 1) = "-" /\ RunEnd(d + 2, Digits) > d + 2 THEN [ok |-> TRUE, k |-> "FLOAT", e |-> RunEnd(d + 2, Digits)]
  ELSE IF At(d) = "e" /\ RunEnd(d + 1, Digits) > d + 1 THEN [ok |-> TRUE, k |-> "INT", e |-> RunEnd(d + 1, Digits)]
  ELSE [ok |-> TRUE, k |-> "INT", e |-> d]

RECURSIVE FindQuote(_, _)
FindQuote(p, q) == IF p >= L THEN -1 ELSE IF At(p) = q THEN p ELSE FindQuote(p + 1, q)

\* accept_path: the loop over `.name`, `.0` (shorthand), `[0]`, `['s']`, `[nested.path]` and `]`; `stops` is the stack of
\* open paths (the stop of each, outermost first).  The result is the outermost path's stop and where the scan goes on,
\* or an error: end of input, `..` or anything else while a bracket is open, a bracket that closes nothing, a segment that
\* is neither name, index nor string.
IndexEnd(q) == LET s == IF At(q) = "-" THEN q + 1 ELSE q IN IF RunEnd(s, Digits) > s THEN RunEnd(s, Digits) ELSE q
PathErr == [r |-> "error", b |-> 0, e |-> 0]
SetTop(stops, v) == [stops EXCEPT ![Len(stops)] = v]
RECURSIVE PathLoop(_, _)
PathLoop(p, stops) ==
  IF p >= L THEN PathErr
  ELSE IF At(p) = "." THEN
       (IF At(p + 1) = "." THEN (IF Len(stops) > 1 THEN PathErr ELSE [r |-> "ok", b |-> stops[1], e |-> p])
        ELSE LET q == RunEnd(p + 1, WS) IN
             IF At(q) \in WordStart THEN PathLoop(RunEnd(q + 1, WordRest), SetTop(stops, RunEnd(q + 1, WordRest)))
             ELSE IF Shorthand /\ IndexEnd(q) > q THEN PathLoop(IndexEnd(q), SetTop(stops, IndexEnd(q)))
             ELSE PathErr)
  ELSE IF At(p) = "]" THEN
       (IF Len(stops) = 1 THEN PathErr
        ELSE PathLoop(p + 1, SetTop(SubSeq(stops, 1, Len(stops) - 1), p + 1)))
  ELSE IF At(p) = "[" THEN
       LET q == RunEnd(p + 1, WS) IN
       IF At(q) \in Quotes THEN
            LET j == FindQuote(q + 1, At(q))
                r == RunEnd(j + 1, WS) IN
            IF j = -1 \/ At(r) # "]" THEN PathErr ELSE PathLoop(r + 1, SetTop(stops, r + 1))
       ELSE IF IndexEnd(q) > q THEN
            LET r == RunEnd(IndexEnd(q), WS) IN
            IF At(r) # "]" THEN PathErr ELSE PathLoop(r + 1, SetTop(stops, r + 1))
       ELSE IF At(q) \in WordStart THEN PathLoop(RunEnd(q + 1, WordRest), Append(stops, RunEnd(q + 1, WordRest)))
       ELSE PathErr
  ELSE IF Len(stops) > 1 THEN PathErr          \* a bracket left open
  ELSE [r |-> "ok", b |-> stops[1], e |-> p]

PathTok(a, pl) == IF pl.r = "ok" THEN [r |-> "tok", k |-> "PathToken", a |-> a, b |-> pl.b, e |-> pl.e]
                  ELSE [r |-> "error", k |-> "", a |-> a, b |-> a, e |-> a]

\* what accept_token does at p: a token (span a..b, scan continues at e), no token, or an error
TokenAt(p) ==
  LET num == NumEnd(p) IN
  IF num.ok THEN [r |-> "tok", k |-> num.k, a |-> p, b |-> num.e, e |-> num.e]
  ELSE IF At(p) = "." /\ At(p + 1) = "." THEN [r |-> "tok", k |-> "DOUBLE_DOT", a |-> p, b |-> p + 2, e |-> p + 2]
  ELSE IF At(p) = "[" THEN PathTok(p, PathLoop(p, <<-1>>))
  ELSE IF At(p) = "|" /\ At(p + 1) = "|" THEN [r |-> "tok", k |-> "DOUBLE_PIPE", a |-> p, b |-> p + 2, e |-> p + 2]
  ELSE IF At(p) = "|" THEN [r |-> "tok", k |-> "PIPE", a |-> p, b |-> p + 1, e |-> p + 1]
  ELSE IF At(p) = ":" THEN [r |-> "tok", k |-> "COLON", a |-> p, b |-> p + 1, e |-> p + 1]
  ELSE IF At(p) = "," THEN [r |-> "tok", k |-> "COMMA", a |-> p, b |-> p + 1, e |-> p + 1]
  ELSE IF At(p) \in Quotes THEN
       LET j == FindQuote(p + 1, At(p)) IN
       IF j = -1 THEN [r |-> "error", k |-> "", a |-> p, b |-> p, e |-> p]
       ELSE [r |-> "tok", k |-> (IF At(p) = "'" THEN "SINGLE_QUOTE_STRING" ELSE "DOUBLE_QUOTE_STRING"),
             a |-> p + 1, b |-> j, e |-> j + 1]     \* the span of a string token is the text between the quotes
  ELSE IF At(p) \in WordStart THEN
       LET e == RunEnd(p + 1, WordRest)
           w == Slice(p, e) IN
       IF At(e) \in {".", "["} THEN PathTok(p, PathLoop(e, <<e>>))       \* a word that starts a path (keywords too)
       ELSE [r |-> "tok", k |-> (IF w \in DOMAIN Keywords THEN Keywords[w] ELSE "WORD"), a |-> p, b |-> e, e |-> e]
  ELSE [r |-> "none", k |-> "", a |-> p, b |-> p, e |-> p]

Child(t) == [k |-> t.k, a |-> t.a, b |-> t.b]
Tok(k, a, b, wcs, name, c) == [k |-> k, a |-> a, b |-> b, wc |-> wcs, name |-> name, c |-> c]

ASSUME \A i \in DOMAIN Alphabet : \A j \in 1..Len(Alphabet[i]) : SubSeq(Alphabet[i], j, j) \in Known
ASSUME \A j \in 1..Len(Prefix) : SubSeq(Prefix, j, j) \in Known
ASSUME \A j \in 1..Len(Suffix) : SubSeq(Suffix, j, j) \in Known

\* ---- build phase ------------------------------------------------------------
Init ==
  /\ phase = "build" /\ text = Prefix /\ cs = Chars(Prefix) /\ n = 0
  /\ mode = "markup" /\ pos = 0 /\ start = 0 /\ mstart = -1 /\ lstart = -1
  /\ wc = <<>> /\ tag = "" /\ expr = <<>> /\ lines = <<>> /\ toks = <<>> /\ cd = 0 /\ rd = 0

AddSymbol ==
  /\ phase = "build" /\ n < MaxLen
  /\ \E i \in DOMAIN Alphabet : text' = text \o Alphabet[i] /\ cs' = cs \o Chars(Alphabet[i])
  /\ n' = n + 1
  /\ UNCHANGED <<phase, lexvars>>

Begin ==
  /\ phase = "build"
  /\ phase' = "lex" /\ text' = text \o Suffix /\ cs' = cs \o Chars(Suffix)
  /\ UNCHANGED <<n, lexvars>>

\* ---- lex_markup -------------------------------------------------------------
Src == <<phase, text, cs, n>>
InMode(m) == phase = "lex" /\ mode = m

LexEnd == /\ InMode("markup") /\ Kind(pos) = "end"
          /\ mode' = "done"
          /\ UNCHANGED <<Src, pos, start, mstart, lstart, wc, tag, expr, lines, toks, cd, rd>>

LexContent == /\ InMode("markup") /\ Kind(pos) = "content"
              /\ LET e == ContentEnd(pos + 1) IN
                 /\ toks' = Append(toks, Tok("ContentToken", start, e, <<>>, "", <<>>))
                 /\ pos' = e /\ start' = e
              /\ UNCHANGED <<Src, mode, mstart, lstart, wc, tag, expr, lines, cd, rd>>

LexRaw == /\ InMode("markup") /\ Kind(pos) = "raw"
          /\ LET m == MRaw(pos) IN
             /\ toks' = Append(toks, Tok("RawToken", start, m.e, m.wcs, "", <<>>))
             /\ pos' = m.e /\ start' = m.e
          /\ UNCHANGED <<Src, mode, mstart, lstart, wc, tag, expr, lines, cd, rd>>

LexComment == /\ InMode("markup") /\ Kind(pos) \in {"comment", "inline"}
              /\ LET m == IF Kind(pos) = "comment" THEN MComment(pos) ELSE MInline(pos) IN
                 /\ toks' = Append(toks, Tok(IF Kind(pos) = "comment" THEN "CommentToken" ELSE "InlineCommentToken",
                                             start, m.e, m.wcs, "", <<>>))
                 /\ pos' = m.e /\ start' = m.e
              /\ UNCHANGED <<Src, mode, mstart, lstart, wc, tag, expr, lines, cd, rd>>

LexOutputOpen == /\ InMode("markup") /\ Kind(pos) = "output"
                 /\ LET m == MOutput(pos) IN
                    /\ mstart' = start /\ wc' = <<m.w>> /\ pos' = m.e /\ start' = m.e
                 /\ mode' = "output"
                 /\ UNCHANGED <<Src, lstart, tag, expr, lines, toks, cd, rd>>

LexTagOpen == /\ InMode("markup") /\ Kind(pos) = "tag"
              /\ LET m == MTag(pos) IN
                 /\ mstart' = start /\ wc' = <<m.w>> /\ tag' = m.name /\ pos' = m.e /\ start' = m.e
                 /\ mode' = IF m.name = "liquid" THEN "liquid" ELSE "tag"
              /\ UNCHANGED <<Src, lstart, expr, lines, toks, cd, rd>>

LexCommentTagOpen == /\ InMode("markup") /\ Kind(pos) = "commenttag"
                     /\ LET m == MCommentTag(pos) IN
                        /\ mstart' = start /\ wc' = <<m.w>> /\ tag' = "comment" /\ pos' = m.e /\ start' = m.e
                     /\ mode' = "bcomment" /\ cd' = 1 /\ rd' = 0
                     /\ UNCHANGED <<Src, lstart, expr, lines, toks>>

\* ---- lex_inside_output_statement / lex_inside_tag: one token (or the end) per step ----
Fail == /\ mode' = "error"
        /\ UNCHANGED <<Src, pos, start, mstart, lstart, wc, tag, expr, lines, toks, cd, rd>>

InsideStep(m, End(_), kind) ==
  /\ InMode(m)
  /\ LET p == RunEnd(pos, WS)
         t == TokenAt(p) IN
     IF t.r = "tok" THEN
        /\ expr' = Append(expr, Child(t)) /\ pos' = t.e /\ start' = t.e
        /\ UNCHANGED <<Src, mode, mstart, lstart, wc, tag, lines, toks, cd, rd>>
     ELSE IF t.r = "none" /\ End(p).ok THEN
        /\ toks' = Append(toks, Tok(kind, mstart, End(p).e, <<wc[1], End(p).w>>, tag, expr))
        /\ pos' = End(p).e /\ start' = End(p).e /\ wc' = <<>> /\ tag' = "" /\ expr' = <<>> /\ mode' = "markup"
        /\ UNCHANGED <<Src, mstart, lstart, lines, cd, rd>>
     ELSE Fail

OutputStep == InsideStep("output", OutEnd, "OutputToken")
TagStep == InsideStep("tag", TagEnd, "TagToken")

\* ---- lex_inside_liquid_tag -----------------------------------------------------
\* RE_LINE_COMMENT / RE_REST_OF_LINE: `(.*?)(?=(\n|[-+~]?%\}))`, `.` does not match a newline
RECURSIVE RestOfLine(_)
RestOfLine(e) == IF e >= L THEN -1
                 ELSE IF At(e) = "\n" \/ TagEnd(e).ok THEN e
                 ELSE RestOfLine(e + 1)
LineTerm(p) == IF At(p) = "\n" THEN p + 1 ELSE IF At(p) = "\r" /\ At(p + 1) = "\n" THEN p + 2 ELSE p

LinesTok(e, w) == Tok("LinesToken", mstart, e, <<wc[1], w>>, "liquid", lines)

LiquidStep ==
  /\ InMode("liquid")
  /\ LET p == RunEnd(pos, WS) IN
     IF TagEnd(p).ok THEN
        /\ toks' = Append(toks, LinesTok(TagEnd(p).e, TagEnd(p).w))
        /\ pos' = TagEnd(p).e /\ start' = TagEnd(p).e /\ wc' = <<>> /\ tag' = "" /\ lines' = <<>> /\ expr' = <<>>
        /\ mode' = "markup"
        /\ UNCHANGED <<Src, mstart, lstart, cd, rd>>
     ELSE IF At(p) \in Lower THEN
        LET e == RunEnd(p + 1, NameRest)
            nm == Slice(p, e) IN
        /\ tag' = nm /\ lstart' = p
        /\ IF nm = "comment"
           THEN mode' = "lcomment" /\ cd' = 1 /\ pos' = RunEnd(e, WS) /\ start' = RunEnd(e, WS)    \* ignore_whitespace
           ELSE mode' = "line" /\ pos' = e /\ start' = e /\ cd' = cd
        /\ UNCHANGED <<Src, mstart, wc, expr, lines, toks, rd>>
     ELSE IF At(p) = "#" /\ RestOfLine(p + 1) # -1 THEN
        LET e == RestOfLine(p + 1) IN
        /\ lines' = Append(lines, Child([k |-> "CommentToken", a |-> p, b |-> e]))
        /\ pos' = (IF At(e) = "\n" THEN e + 1 ELSE e) /\ start' = (IF At(e) = "\n" THEN e + 1 ELSE e)
        /\ UNCHANGED <<Src, mode, mstart, lstart, wc, tag, expr, toks, cd, rd>>
     ELSE Fail

\* ---- lex_inside_line_statement ---------------------------------------------------
LineStep ==
  /\ InMode("line")
  /\ LET p == RunEnd(pos, LINESPACE)
         t == TokenAt(p) IN
     IF LineTerm(p) > p THEN
        /\ lines' = Append(lines, [k |-> "TagToken", a |-> lstart, b |-> p, name |-> tag, c |-> expr])
        /\ pos' = LineTerm(p) /\ start' = LineTerm(p) /\ tag' = "" /\ expr' = <<>> /\ mode' = "liquid"
        /\ UNCHANGED <<Src, mstart, lstart, wc, toks, cd, rd>>
     ELSE IF t.r = "tok" THEN
        /\ expr' = Append(expr, Child(t)) /\ pos' = t.e /\ start' = t.e
        /\ UNCHANGED <<Src, mode, mstart, lstart, wc, tag, lines, toks, cd, rd>>
     ELSE IF t.r = "none" /\ TagEnd(p).ok THEN
        LET e == TagEnd(p).e
            last == [k |-> "TagToken", a |-> lstart, b |-> p, name |-> tag, c |-> expr] IN   \* ends before `%}`, as before a line break
        /\ toks' = Append(toks, Tok("LinesToken", mstart, e, <<wc[1], TagEnd(p).w>>, "liquid", Append(lines, last)))
        /\ pos' = e /\ start' = e /\ wc' = <<>> /\ tag' = "" /\ lines' = <<>> /\ expr' = <<>> /\ mode' = "markup"
        /\ UNCHANGED <<Src, mstart, lstart, cd, rd>>
     ELSE Fail

\* ---- lex_inside_block_comment: one chunk per step ---------------------------------
ChunkKw(q) == IF Lit(q, kwComment) THEN "comment" ELSE IF Lit(q, kwEndcomment) THEN "endcomment"
              ELSE IF Lit(q, kwRaw) THEN "raw" ELSE IF Lit(q, kwEndraw) THEN "endraw" ELSE ""
RECURSIVE FindChunk(_)
FindChunk(p) == IF p >= L THEN -1
                ELSE IF TagHead(p).ok /\ ChunkKw(TagHead(p).q) # "" THEN p
                ELSE FindChunk(p + 1)

BlockCommentStep ==
  /\ InMode("bcomment")
  /\ LET j == FindChunk(pos) IN
     IF j = -1 THEN Fail ELSE
     LET kw == ChunkKw(TagHead(j).q)
         ke == TagHead(j).q + Len(kw)
         c  == FindClose(ke) IN
     IF c = -1 THEN Fail ELSE
     LET w == IF c - 1 >= ke /\ At(c - 1) \in WC THEN At(c - 1) ELSE ""
         e == c + 2 IN
     IF kw = "endcomment" /\ rd = 0 /\ cd = 1 THEN
        /\ toks' = Append(toks, Tok("BlockCommentToken", mstart, e, <<wc[1], w>>, "", <<>>))
        /\ pos' = e /\ start' = e /\ wc' = <<>> /\ tag' = "" /\ cd' = 0 /\ mode' = "markup"
        /\ UNCHANGED <<Src, mstart, lstart, expr, lines, rd>>
     ELSE
        /\ pos' = e
        /\ cd' = (IF kw = "comment" THEN cd + 1 ELSE IF kw = "endcomment" /\ rd = 0 THEN cd - 1 ELSE cd)
        /\ rd' = (IF kw = "raw" THEN rd + 1 ELSE IF kw = "endraw" /\ rd > 0 THEN rd - 1 ELSE rd)
        /\ UNCHANGED <<Src, mode, start, mstart, lstart, wc, tag, expr, lines, toks>>

\* ---- lex_inside_liquid_block_comment: one line per step ----------------------------
\* every line of the block may be indented (the intended design; see the header)
SkipRest(p) == LET r == RestOfLine(p) IN LineTerm(IF r = -1 THEN p ELSE r)

LiquidCommentStep ==
  /\ InMode("lcomment")
  /\ LET p == RunEnd(pos, WS) IN
     IF At(p) \in Lower THEN
        LET e == RunEnd(p + 1, NameRest)
            nm == Slice(p, e) IN
        IF nm = "endcomment" /\ cd = 1 THEN
           LET s == SkipRest(e) IN
           /\ lines' = Append(lines, Child([k |-> "BlockCommentToken", a |-> lstart, b |-> s]))
           /\ pos' = s /\ start' = s /\ cd' = 0 /\ mode' = "liquid"
           /\ UNCHANGED <<Src, mstart, lstart, wc, tag, expr, toks, rd>>
        ELSE
           /\ pos' = SkipRest(e)
           /\ cd' = (IF nm = "endcomment" THEN cd - 1 ELSE IF nm = "comment" THEN cd + 1 ELSE cd)
           /\ UNCHANGED <<Src, mode, start, mstart, lstart, wc, tag, expr, lines, toks, rd>>
     ELSE IF At(p) = "#" /\ RestOfLine(p + 1) # -1 THEN
        /\ pos' = LineTerm(RestOfLine(p + 1))
        /\ UNCHANGED <<Src, mode, start, mstart, lstart, wc, tag, expr, lines, toks, cd, rd>>
     ELSE Fail

Next == \/ AddSymbol \/ Begin
        \/ LexEnd \/ LexContent \/ LexRaw \/ LexComment \/ LexOutputOpen \/ LexTagOpen \/ LexCommentTagOpen
        \/ OutputStep \/ TagStep \/ LiquidStep \/ LineStep \/ BlockCommentStep \/ LiquidCommentStep

Spec == Init /\ [][Next]_vars

\* ---- what TLC checks on the machine ------------------------------------------------
Lexing == phase = "lex"
PointersOK == Lexing => (0 <= start /\ start <= pos /\ pos <= L)

Contiguous(ts) == \A i \in 1..(Len(ts) - 1) : ts[i].b = ts[i + 1].a
NonEmpty(ts) == \A i \in DOMAIN ts : ts[i].a < ts[i].b
Upto == IF mode \in {"markup", "done"} THEN start ELSE mstart
PrefixTiling ==
  (Lexing /\ mode # "error") =>
     /\ Contiguous(toks) /\ NonEmpty(toks)
     /\ (toks # <<>> => toks[1].a = 0 /\ toks[Len(toks)].b = Upto)
     /\ (toks = <<>> => Upto = 0)

InOrder(cs2, a, b) == /\ \A i \in DOMAIN cs2 : a <= cs2[i].a /\ cs2[i].a <= cs2[i].b /\ cs2[i].b <= b
                      /\ \A i \in 1..(Len(cs2) - 1) : cs2[i].b <= cs2[i + 1].a
Nested ==
  Lexing =>
     /\ \A i \in DOMAIN toks : /\ InOrder(toks[i].c, toks[i].a, toks[i].b)
                               /\ \A j \in DOMAIN toks[i].c :
                                     ("c" \in DOMAIN toks[i].c[j]) => InOrder(toks[i].c[j].c, toks[i].c[j].a, toks[i].c[j].b)
     /\ (mode \in {"output", "tag", "line"} => InOrder(expr, mstart, pos))
     /\ (mode \in {"liquid", "line", "lcomment"} => InOrder(lines, mstart, pos))

FinalTiling == (Lexing /\ mode = "done") => (Upto = L /\ pos = L)
WcShape == Lexing => (Len(wc) = (IF mode \in {"markup", "done", "error"} THEN 0 ELSE 1) \/ mode = "error")

Progress == [][(Lexing /\ Lexing') => (pos' > pos \/ mode' \in {"done", "error"})]_vars

\* ---- export (one line per source) ----------------------------------------------------
Export ==
  (Lexing /\ mode \in {"done", "error"}) =>
     Serialize(ToJson([focus |-> Focus, src |-> text, outcome |-> mode, shorthand |-> Shorthand,
                       toks |-> IF mode = "done" THEN toks ELSE <<>>]) \o "\n", IOEnv.OUT_FILE,
               [format |-> "TXT", charset |-> "UTF-8",
                openOptions |-> <<"WRITE", "CREATE", "APPEND">>]).exitValue = 0

\* ---- alphabets ------------------------------------------------------------------------
AMarkup == <<"{{", "}}", "{%", "%}", "{#", "#}", "#", "-", "~", "raw", "endraw", "comment", "endcomment",
             "liquid", "if", "x", "1", "e", " ", "\n", "'", "|", "{", "}", "%">>
AMarkupSmall == <<"{{", "}}", "{%", "%}", "{#", "#}", "#", "-", "raw", "endraw", "comment", "endcomment", "x", " ", "\n", "'">>
AInside == <<"x", "if", "1", "e", "-", "~", " ", "\n", "\r", "'", "\"", "|", ":", ",", "}}", "%}", "{{", "#", "_">>
ALiquid == <<"echo", "x", "1", " ", "\n", "\r", "#", "comment", "endcomment", "%}", "-", "'", "|", "{%", "raw">>
AComment == <<"{%", "%}", "-", " ", "comment", "endcomment", "raw", "endraw", "x", "{{", "#}", "\n">>

APath == <<"x", "if", "1", "-", ".", "[", "]", "'", " ", "|", "}}", "a-b", "\n">>

\* wrappers of the focuses (a cfg file cannot spell a line break)
Empty == ""
POutput == "{{ "            POutputClosed == "a{{"        SOutputClosed == " }}b"
PTag == "{%- if "           STag == "%}"
PLiquid == "{% liquid "     PLiquidClosed == "{%liquid\n" SLiquidClosed == "\n%}"
PLiquidComment == "{% liquid comment\n"                   SLiquidComment == "endcomment\n echo x %}"
PComment == "{% comment %}" SComment == "{% endcomment %}" PCommentOpen == "a{%-comment-%}"
POutputX == "{{ x"           SOutputClose == " }}"
POutputPath == "{{ a[b }}|{{ x"     \* a bracket left open in an earlier output
PRaw == "{% raw %}"         SRaw == "{% endraw %}x"
=============================================================================
