-------------------------------- MODULE MC_Layers --------------------------------
(* Focus "layers": one name bound in every subset of the namespace layers with      *)
(* distinct values - block scope (with / for), template local (assign), render      *)
(* argument, loader matter, template global, environment global, built-in (now,     *)
(* today) and counter - read inside the block and again after it (C10).             *)
EXTENDS LiquidGen, LiquidAst

CONSTANT Name    \* "x" | "now" | "today"

LayerOf(on, v) == IF on THEN <<<<Name, Str(v)>>>> ELSE <<>>
MCData == {<<LayerOf(a, "ARG"), LayerOf(m, "MATTER"), LayerOf(t, "TGLOBAL"), LayerOf(e, "EGLOBAL")>> :
             a \in BOOLEAN, m \in BOOLEAN, t \in BOOLEAN, e \in BOOLEAN}
MCCfgs == {Cfg("+", TRUE, FALSE, "default")}
MCPartials == << <<"p", <<NText("(p:"), NOut(P(V(Name))), NText(")")>>>> >>

N == V(Name)
Nop == Comment("hash", "-")
MCPoolAt(i) ==
  CASE i = 1 -> {Nop, Incr(Name), Decr(Name)}
    [] i = 2 -> {Nop, Assign(Name, P(S("LOCAL"))), Capture(Name, <<NText("CAPT")>>)}
    [] i = 3 -> {NOut(P(N)),
                 With(<<WArg(Name, S("BLOCK"))>>, <<NOut(P(N))>>),
                 With(<<WArg(Name, S("BLOCK"))>>, <<With(<<WArg(Name, S("INNER"))>>, <<NOut(P(N))>>), NText("/"), NOut(P(N))>>),
                 For(Name, RangeE(I(1), I(1)), "(1..1)", NoOpt, NoOpt, FALSE, <<NOut(P(N))>>, NoElse),
                 Include(S("p"), "none", NilE, "", <<WArg(Name, S("KWARG"))>>),
                 Include(S("p"), "with", S("WITH"), Name, <<>>),
                 RenderT(S("p"), "none", NilE, "", <<>>),
                 RenderT(S("p"), "none", NilE, "", <<WArg(Name, S("KWARG"))>>)}
    [] i = 4 -> {NText("|")}
    [] i = 5 -> {NOut(P(N)), Include(S("p"), "none", NilE, "", <<>>)}
    [] OTHER -> {}
=============================================================================
