-------------------------------- MODULE MC_Lambda --------------------------------
(* Focus "lambda": the array filters in their arrow-function and string-key forms   *)
(* (map, where, reject, find, find_index, has, compact, sort, uniq, sum) over        *)
(* arrays of hashes with duplicates and missing keys; the arrow-function parameter  *)
(* shares its name with an outer variable that is read again afterwards (C07: the    *)
(* parameter is visible only inside the filter; C19: key and arrow forms agree).    *)
EXTENDS LiquidGen, LiquidAst

H(a, t) == Hash(<< <<"a", a>>, <<"t", Str(t)>> >>)
HS1 == Arr(<<H(IntV(2), "u"), H(IntV(3), "v"), H(IntV(2), "w")>>)
HS2 == Arr(<<H(IntV(5), "p"), Hash(<< <<"t", Str("q")>> >>), H(Nil, "r"), H(IntV(7), "p")>>)
HS3 == Arr(<<>>)
HS4 == Arr(<<H(Str("b"), "z"), H(Str("a"), "y"), H(Str("b"), "x")>>)
MCData == {<< <<<<"hs", h>>, <<"x", Str("OUTER")>>, <<"n", IntV(2)>>, <<"na", Arr(<<Str("a"), Nil, Str("b")>>)>>>>, <<>>, <<>>, <<>> >> : h \in {HS1, HS2, HS3, HS4}}
MCCfgs == {Cfg("+", TRUE, FALSE, "default")}
MCPartials == <<>>

XA == VP("x", "a")
Conds == {Cmp("==", XA, I(2)), Cmp("==", XA, V("n")), Cmp(">", XA, I(2)), XA, Not(XA), Cmp("==", VP("x", "t"), S("q")),
          Cmp("==", XA, S("b")), Cmp("==", XA, I(99))}
Show == <<Fl("map", <<S("t")>>), Fl("join", <<S(",")>>)>>
Lams == {F(V("hs"), <<Fl(f, <<Lam(<<"x">>, c)>>)>> \o Show) : f \in {"where", "reject"}, c \in Conds}
        \cup {F(V("hs"), <<Fl(f, <<Lam(<<"x">>, c)>>)>>) : f \in {"find_index", "has"}, c \in Conds}
        \cup {F(V("hs"), <<Fl("map", <<Lam(<<"x">>, p)>>), Fl("join", <<S(",")>>)>>) : p \in {XA, VP("x", "t")}}
        \cup {F(V("hs"), <<Fl("map", <<Lam(<<"x", "i">>, V("i"))>>), Fl("join", <<S(",")>>)>>)}
        \cup {F(V("hs"), <<Fl(f, <<Lam(<<"x">>, p)>>)>> \o Show) : f \in {"compact", "sort", "uniq"}, p \in {XA, VP("x", "t")}}
        \cup {F(V("hs"), <<Fl("sum", <<Lam(<<"x">>, XA)>>)>>)}
        \* ties, missing keys and nil under sort_numeric / sort_natural, key form and arrow form
        \cup {F(V("hs"), <<Fl(f, <<Lam(<<"x">>, p)>>)>> \o Show) : f \in {"sort_numeric", "sort_natural"}, p \in {XA, VP("x", "t")}}
        \cup {F(V("hs"), <<Fl(f, <<S(k)>>)>> \o Show) : f \in {"sort_numeric", "sort_natural"}, k \in {"a", "t"}}
        \* predicates that hold of nil: the first match is nil itself
        \cup {F(V("na"), <<Fl(f, <<Lam(<<"x">>, c)>>)>>) : f \in {"has", "find_index"}, c \in {Cmp("==", V("x"), NilE), Not(V("x")), Cmp("==", V("x"), S("b"))}}
        \cup {F(V("na"), <<Fl("where", <<Lam(<<"x">>, Cmp("==", V("x"), NilE))>>), Fl("size", <<>>)>>),
              F(V("na"), <<Fl("find", <<Lam(<<"x">>, Cmp("==", V("x"), NilE))>>), Fl("default", <<S("nil-found")>>)>>)}
Keys == {F(V("hs"), <<Fl(f, <<S("a"), v>>)>> \o Show) : f \in {"where", "reject"}, v \in {I(2), V("n"), S("b"), I(99)}}
        \cup {F(V("hs"), <<Fl(f, <<S("a")>>)>> \o Show) : f \in {"where", "reject", "compact", "sort", "uniq"}}
        \cup {F(V("hs"), <<Fl(f, <<S("a"), v>>)>>) : f \in {"find_index", "has"}, v \in {I(2), V("n"), S("b"), I(99)}}
        \cup {F(V("hs"), <<Fl("map", <<S(k)>>), Fl("join", <<S(",")>>)>>) : k \in {"a", "t"}}
        \* what map leaves for a missing key is nil for every later filter
        \cup {F(V("hs"), <<Fl("map", <<S("a")>>), Fl(f, <<>>), Fl("join", <<S(",")>>)>>) : f \in {"uniq", "compact", "reverse"}}
        \cup {F(V("hs"), <<Fl("map", <<S("a")>>), Fl(f, <<>>), Fl("size", <<>>)>>) : f \in {"uniq", "compact"}}
        \cup {F(V("hs"), <<Fl("sum", <<S("a")>>)>>), F(V("hs"), <<Fl("sort", <<S("t")>>)>> \o Show), F(V("hs"), <<Fl("uniq", <<S("t")>>)>> \o Show)}
\* find returns a hash: show a property of what was found
Finds == {Assign("f", F(V("hs"), <<Fl("find", <<Lam(<<"x">>, c)>>)>>)) : c \in Conds}
         \cup {Assign("f", F(V("hs"), <<Fl("find", <<S("a"), v>>)>>)) : v \in {I(2), V("n"), S("b"), I(99)}}

MCPoolAt(i) ==
  CASE i = 1 -> {NOut(e) : e \in Lams \cup Keys} \cup Finds
    [] i = 2 -> {NText("|")}
    [] i = 3 -> {NOut(P(V("x")))}                              \* the outer x, unchanged
    [] i = 4 -> {NOut(P(VP("f", "t")))}
    [] OTHER -> {}
=============================================================================
