-------------------------------- MODULE MC_Short --------------------------------
(* Focus "short": shorthand array indexes (foo.0.bar for foo[0].bar), allowed only    *)
(* when Environment.shorthand_indexes is set: with it both spellings mean the same,   *)
(* without it the dotted one is a syntax error.                                       *)
EXTENDS LiquidGen, LiquidAst

MCData == { << <<<<"a", Arr(<<Arr(<<IntV(7), IntV(8)>>), Hash(<< <<"b", Str("B")>> >>), IntV(9)>>)>>, <<"h", Hash(<< <<"l", Arr(<<Str("x"), Str("y")>>)>> >>)>>>>, <<>>, <<>>, <<>> >> }
MCCfgs == {Cfg("+", TRUE, FALSE, "default") @@ [shorthand |-> sh] : sh \in BOOLEAN}
MCPartials == <<>>

Pairs == {<<Path(<<Key("a"), IdxS(2)>>), Path(<<Key("a"), Idx(2)>>)>>,
          <<Path(<<Key("a"), IdxS(1), Key("b")>>), Path(<<Key("a"), Idx(1), Key("b")>>)>>,
          <<Path(<<Key("a"), IdxS(0), IdxS(1)>>), Path(<<Key("a"), Idx(0), Idx(1)>>)>>,
          <<Path(<<Key("a"), IdxS(-1)>>), Path(<<Key("a"), Idx(-1)>>)>>,
          <<Path(<<Key("a"), Idx(0), IdxS(0)>>), Path(<<Key("a"), Idx(0), Idx(0)>>)>>,
          <<Path(<<Key("h"), Key("l"), IdxS(1)>>), Path(<<Key("h"), Key("l"), Idx(1)>>)>>,
          <<Path(<<Key("a"), IdxS(5)>>), Path(<<Key("a"), Idx(5)>>)>>,
          <<Path(<<Key("a"), Sub(<<Key("h"), Key("l"), IdxS(9)>>)>>), Path(<<Key("a"), Sub(<<Key("h"), Key("l"), Idx(9)>>)>>)>>}
Sh == {p[1] : p \in Pairs}
MCPool == {NOut(P(e)) : e \in Sh} \cup {NOut(F(e, <<Fl("default", <<S("-")>>)>>)) : e \in Sh}
          \cup {For("i", e, ESrc(e), NoOpt, NoOpt, FALSE, <<NOut(P(V("i")))>>, NoElse) : e \in {Path(<<Key("a"), IdxS(0)>>)}}
          \cup {If(Cmp("==", p[1], p[2]), <<NText("same")>>, <<>>, Else(<<NText("differ")>>)) : p \in Pairs}
          \cup {Assign("z", P(Path(<<Key("a"), IdxS(0)>>))), NOut(P(Path(<<Key("z"), IdxS(1)>>)))}
MCPoolAt(i) == MCPool
=============================================================================
