-------------------------------- MODULE MC_Loops --------------------------------
(* Focus "loops": for with limit / offset / offset:continue / reversed / else, *)
(* break and continue, forloop helper variables, nested loops (parentloop),    *)
(* cycle inside loops.  Variant "pairs": two loops over the same iterable, so  *)
(* that `offset: continue` has something to continue from.                     *)
EXTENDS LiquidGen, LiquidAst

CONSTANT Variant    \* "single" | "pairs" | "nest"

A123 == Arr(<<IntV(1), IntV(2), IntV(3)>>)
Layers(vx, vy) == << <<<<"x", vx>>, <<"y", vy>>>>, <<>>, <<>>, <<>> >>
MCData ==
  IF Variant = "single"
  THEN {Layers(vx, vy) : vx \in {A123, Arr(<<>>), Arr(<<Str("a"), Str("b")>>), Hash(<< <<"k", IntV(1)>>, <<"l", Str("v")>> >>),
                                 Nil, IntV(3), Range(2, 4)}, vy \in {IntV(2), IntV(0)}}
       \cup {<< <<<<"y", IntV(1)>>>>, <<>>, <<>>, <<>> >>}
  ELSE {Layers(vx, vy) : vx \in {A123, Arr(<<Str("a"), Str("b"), Str("c"), Str("d")>>), Arr(<<>>)}, vy \in {IntV(1), IntV(2)}}

MCCfgs == {Cfg("+", TRUE, FALSE, "default")}

X == V("x")
Y == V("y")
It == V("i")
FL(p) == VP("forloop", p)
ForN(n, it, limit, offset, rev, b, els) == For(n, it, ESrc(it), limit, offset, rev, b, els)

Bodies1 == {<<NOut(P(It))>>,
            <<NOut(P(FL("index"))), NText(":"), NOut(P(It)), NText(" ")>>,
            <<NOut(P(FL("index0"))), NOut(P(FL("rindex"))), NOut(P(FL("rindex0"))), NOut(P(FL("length")))>>,
            <<NOut(P(FL("first"))), NText("/"), NOut(P(FL("last"))), NText(" ")>>,
            <<If(Cmp("==", It, Y), <<Break>>, <<>>, NoElse), NOut(P(It))>>,
            <<If(Cmp("==", It, Y), <<Continue>>, <<>>, NoElse), NOut(P(It))>>,
            <<NOut(P(It)), If(FL("last"), <<>>, <<>>, Else(<<NText(",")>>))>>,
            <<Cycle("", <<S("o"), S("e")>>, "|o,e"), NOut(P(VI("i", 0)))>>,
            <<>>, <<Assign("y", P(It))>>}
Iters == {X, RangeE(I(1), I(3)), RangeE(I(1), Y), RangeE(I(3), I(1))}
Limits == {NoOpt, Opt(I(2)), Opt(I(0)), Opt(Y)}
Offsets == {NoOpt, Opt(I(1)), Opt(I(5)), OptCont, Opt(Y)}

Singles == {ForN("i", it, l, o, r, b, e) :
              it \in Iters, l \in Limits, o \in Offsets, r \in BOOLEAN, b \in Bodies1,
              e \in {NoElse, Else(<<NText("E")>>)}}

\* pairs: the same loop header text (same stop-index key) twice, and a different one
PairLoops == {ForN(n, X, l, o, r, <<NOut(P(V(n)))>>, NoElse) :
                n \in {"i", "j"}, l \in {NoOpt, Opt(I(1)), Opt(I(2)), Opt(Y)},
                o \in {NoOpt, OptCont, Opt(I(1))}, r \in BOOLEAN}
             \cup {NText("|"), Assign("x", P(RangeE(I(1), I(2))))}

\* triples: sequences of three loops over the same key, so that a later loop
\* continues from (or restarts after) what the earlier ones consumed
TripleLoops == {ForN("i", X, l, o, FALSE, <<NOut(P(V("i")))>>, NoElse) :
                  l \in {NoOpt, Opt(I(0)), Opt(I(1)), Opt(I(2))}, o \in {NoOpt, OptCont}}
               \cup {ForN("i", X, Opt(I(1)), Opt(I(9)), FALSE, <<NOut(P(V("i")))>>, NoElse), NText("|")}

\* nests: inner loops reading parentloop, break/continue in the inner loop only
Inner(b) == ForN("j", RangeE(I(1), I(2)), NoOpt, NoOpt, FALSE, b, NoElse)
InnerBodies == {<<NOut(P(VP("forloop", "index"))), NOut(P([k |-> "var", segs |-> <<[t |-> "k", v |-> "forloop"], [t |-> "k", v |-> "parentloop"], [t |-> "k", v |-> "index"]>>]))>>,
                <<If(Cmp("==", V("j"), Y), <<Break>>, <<>>, NoElse), NOut(P(It)), NOut(P(V("j")))>>,
                <<If(Cmp("==", V("j"), Y), <<Continue>>, <<>>, NoElse), NOut(P(V("j")))>>,
                <<NOut(P([k |-> "var", segs |-> <<[t |-> "k", v |-> "forloop"], [t |-> "k", v |-> "parentloop"], [t |-> "k", v |-> "parentloop"]>>])), NText("-")>>}
Nests == {ForN("i", X, l, NoOpt, r, <<NOut(P(FL("index"))), Inner(b), NText(";")>>, NoElse) :
            l \in {NoOpt, Opt(I(2))}, r \in BOOLEAN, b \in InnerBodies}
         \cup {ForN("i", X, NoOpt, NoOpt, FALSE, <<Inner(b), If(Cmp("==", It, Y), <<Break>>, <<>>, NoElse)>>, NoElse) : b \in InnerBodies}

MCPool == CASE Variant = "single" -> Singles
            [] Variant = "pairs" -> PairLoops
            [] Variant = "triples" -> TripleLoops
            [] Variant = "nest" -> Nests \cup {NOut(P(VP("forloop", "index")))}
MCPoolAt(i) == MCPool
MCPartials == <<>>
=============================================================================
