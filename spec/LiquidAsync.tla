------------------------------ MODULE LiquidAsync ------------------------------
(***************************************************************************)
(* Schedules of concurrent async renders (C03, C09).  A task is a render   *)
(* coroutine that suspends at its await points (loader reads, freshness    *)
(* checks, lazily awaited drops); between two await points it runs         *)
(* atomically.  TLC enumerates every interleaving of the tasks' steps.     *)
(*                                                                         *)
(* What a task computes is modelled as a fold over the values it reads at  *)
(* its await points from a store that no render writes; so its result is   *)
(* its solo result in every schedule (ScheduleIndependent) - the design    *)
(* has no shared mutable render state.  The harness replays each schedule  *)
(* on real coroutines, stepping them by hand, and compares every task's    *)
(* output with its solo output.                                            *)
(***************************************************************************)
EXTENDS Integers, Sequences, TLC, Json, IOUtils

CONSTANTS Points,   \* sequence: number of await points of each task
          Focus

Tasks == DOMAIN Points
VARIABLES pc, acc, sched
vars == <<pc, acc, sched>>

Store(t, k) == t * 100 + k                 \* the value task t reads at its k-th await point

Init == /\ pc = [t \in Tasks |-> 0]
        /\ acc = [t \in Tasks |-> <<>>]
        /\ sched = <<>>

\* resume task t: it runs to its next await point (or to completion)
Step(t) == /\ pc[t] <= Points[t]
           /\ pc' = [pc EXCEPT ![t] = @ + 1]
           /\ acc' = [acc EXCEPT ![t] = IF pc[t] = 0 THEN @ ELSE Append(@, Store(t, pc[t]))]
           /\ sched' = Append(sched, t)

Next == \E t \in Tasks : Step(t)
Done == \A t \in Tasks : pc[t] = Points[t] + 1

Solo(t) == [k \in 1..Points[t] |-> Store(t, k)]
ScheduleIndependent == Done => \A t \in Tasks : acc[t] = Solo(t)

Export ==
  Done => Serialize(ToJson([focus |-> Focus, points |-> Points, schedule |-> sched]) \o "\n", IOEnv.OUT_FILE,
            [format |-> "TXT", charset |-> "UTF-8", openOptions |-> <<"WRITE", "CREATE", "APPEND">>]).exitValue = 0

=============================================================================
