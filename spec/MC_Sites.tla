-------------------------------- MODULE MC_Sites --------------------------------
(* Focus "sites": every kind of primitive expression (string literals in both     *)
(* quote styles, template strings, numbers, paths with every segment form,        *)
(* ranges, nil/true/empty) placed at every expression site of every tag and of    *)
(* the expression grammar itself (C02, C12, C17, C20, C01).                       *)
EXTENDS LiquidGen, LiquidAst

X == V("x")
Y == V("y")
\* "o" is an ordinal drop: every access to one of its items returns the number of
\* accesses so far (as a cursor would), so evaluating an expression once more or
\* once less changes the output (C03: the async twins evaluate as often as the sync code)
MCData == {<< <<<<"x", Hash(<< <<"a", IntV(2)>>, <<"s", Str("p")>> >>)>>, <<"y", vy>>, <<"arr", Arr(<<IntV(1), IntV(2)>>)>>,
                 <<"o", [t |-> "odrop"]>>>>, <<>>, <<>>, <<>> >>
             : vy \in {Str("p"), IntV(2), Nil}}
MCCfgs == {[Cfg("+", TRUE, FALSE, "default") EXCEPT !.shopify = TRUE]}
MCPartials == << <<"p", <<NText("[p:"), NOut(P(V("v"))), NOut(P(V("p"))), NText("]")>>>>, <<"s", <<NText("[s]")>>>> >>

Prims == {S("p"), SQ("p", "\""), SQ("", "'"), TStr(<<S("a"), P(Y), S("b")>>, "\""), TStr(<<P(VP("x", "s"))>>, "'"),
          TStr(<<S("p")>>, "'"), I(1), I(2), I(-1), I(0), X, Y, VP("x", "a"), VP("x", "s"), Path(<<Key("x"), KeyB("s")>>),
          V("arr"), Path(<<Key("arr"), Idx(0)>>), RangeE(I(1), I(2)), RangeE(I(1), Y), NilE, TrueE, FalseE, EmptyE, BlankE,
          VP("o", "n"), VP("o", "odd")}

Site(p) ==
  {NOut(P(p)), Echo(P(p)), Assign("z", P(p)),
   NOut(F(Y, <<Fl("append", <<p>>)>>)), NOut(F(p, <<Fl("default", <<p>>)>>)), NOut(F(Y, <<Fk("default", <<S("d")>>, <<WArg("allow_false", p)>>)>>)),
   NOut(F(V("arr"), <<Fl("join", <<p>>)>>)), NOut(F(V("arr"), <<Fl("map", <<Lam(<<"i">>, p)>>), Fl("join", <<>>)>>)),
   NOut(F(p, <<Fl("slice", <<p, p>>)>>)),
   NOut(Tern(F(p, <<>>), p, p, <<Fl("append", <<p>>)>>, <<Fl("prepend", <<p>>)>>)),
   NOut(P(ArrLit(<<p, p>>))), NOut(P(RangeE(p, I(3)))), NOut(P(RangeE(I(0), p))), NOut(P(TStr(<<S("<"), P(p), S(">")>>, "\""))),
   If(p, <<NText("T")>>, <<Elif(p, <<NText("E")>>)>>, Else(<<NText("F")>>)),
   If(Cmp("==", p, Y), <<NText("T")>>, <<>>, NoElse), If(Cmp("<", p, I(2)), <<NText("T")>>, <<>>, NoElse),
   If(Contains(p, S("p")), <<NText("T")>>, <<>>, NoElse), If(In(p, V("arr")), <<NText("T")>>, <<>>, NoElse),
   If(And(Not(p), Or(p, Y)), <<NText("T")>>, <<>>, NoElse), Unless(p, <<NText("U")>>, <<>>, NoElse),
   If(FalseE, <<>>, <<Elif(Cmp("==", p, I(1)), <<NText("E1")>>), Elif(Cmp("==", p, I(2)), <<NText("E2")>>), Elif(p, <<NText("E3")>>)>>, Else(<<NText("F")>>)),
   Unless(TrueE, <<>>, <<Elif(Cmp("==", p, I(1)), <<NText("U1")>>), Elif(Cmp("==", p, I(2)), <<NText("U2")>>)>>, Else(<<NText("UF")>>)),
   Case(p, <<When(<<p, I(2)>>, <<NText("W")>>)>>, Else(<<NText("E")>>)), Case(Y, <<When(<<S("q"), p>>, <<NText("W")>>)>>, NoElse),
   For("i", p, ESrc(p), NoOpt, NoOpt, FALSE, <<NOut(P(V("i")))>>, Else(<<NText("none")>>)),
   For("i", V("arr"), "arr", Opt(p), NoOpt, FALSE, <<NOut(P(V("i")))>>, NoElse),
   For("i", V("arr"), "arr", NoOpt, Opt(p), TRUE, <<NOut(P(V("i")))>>, NoElse),
   TableRow("i", V("arr"), "arr", NoOpt, NoOpt, Opt(p), <<NOut(P(V("i")))>>),
   TableRow("i", p, ESrc(p), Opt(p), Opt(p), NoOpt, <<NOut(P(V("i")))>>),
   Cycle("", <<p, S("z")>>, "|" \o ESrc(p)), Cycle("g", <<S("z"), p>>, "g|" \o ESrc(p)),
   Include(S("p"), "with", p, "", <<>>), Include(S("p"), "for", p, "v", <<>>),
   Include(S("p"), "none", NilE, "", <<WArg("v", p)>>),
   RenderT(S("p"), "with", p, "", <<>>), RenderT(S("p"), "for", p, "v", <<WArg("k", p)>>), RenderT(S("p"), "none", NilE, "", <<WArg("v", p)>>),
   With(<<WArg("w", p), WArg("v", p)>>, <<NOut(P(V("w")))>>),
   Macro("m", <<ParamD("a", p), Param("b")>>, <<NOut(P(V("a"))), NOut(P(V("b")))>>),
   Call("m", <<p>>, <<WArg("b", p)>>),
   LiquidTag(<<Echo(P(p)), Assign("z", P(p)), If(p, <<Echo(P(S("T")))>>, <<>>, NoElse), Cycle("", <<p>>, "|l")>>)}

\* the name of an included template is a string literal or a path (not a template string)
NameSites == {Include(p, "none", NilE, "", <<>>) : p \in {S("p"), SQ("s", "\""), X, Y, VP("x", "s"), Path(<<Key("x"), KeyB("s")>>)}}
MCPoolAt(i) ==
  CASE i = 1 -> {Macro("m", <<Param("a"), Param("b")>>, <<NOut(P(V("a"))), NOut(P(V("b")))>>), Comment("hash", "-")}
    [] i = 2 -> UNION {Site(p) : p \in Prims} \cup NameSites
    [] OTHER -> {NOut(P(V("z")))}
=============================================================================
