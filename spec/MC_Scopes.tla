------------------------------- MODULE MC_Scopes -------------------------------
(* Focus "scopes": assign / capture / counters / for / with / macro+call /       *)
(* include / render (with, for, as, keyword arguments) over a shared pool of     *)
(* variable names, so that every shadowing and capture pattern occurs           *)
(* (C07, C10, C01, C03).                                                         *)
EXTENDS LiquidGen, LiquidAst

X == V("x")
Y == V("y")
Z == V("z")
Sep == NText("|")

\* the loader's partial templates
PartP == <<NText("[p:"), NOut(P(X)), Sep, NOut(P(Y)), Sep, NOut(P(Z)), Sep, NOut(P(V("p"))), Sep, NOut(P(V("q"))),
           Sep, NOut(P(V("c"))), NText("]"), Assign("y", P(S("P"))), Incr("c"), Capture("z", <<NText("pz")>>)>>
PartQ == <<NText("[q:"), NOut(P(V("q"))), NOut(P(VP("forloop", "index"))), NOut(P(X)), NText("]"), Assign("x", P(S("Q")))>>
PartR == <<NText("[r:"), Include(S("p"), "none", NilE, "", <<>>), NText("]")>>
PartS == <<NOut(P(VP("forloop", "index"))), NText(":"), NOut(P(V("s"))), NOut(P(V("v"))), Assign("v", P(I(1))), Incr("k"),
           Cycle("", <<S("a"), S("b")>>, "|a,b"), NText(";")>>
PartB == <<NText("b1"), Break, NText("b2")>>
\* a loop inside a partial: its parentloop must not be the caller's loop when rendered
FLP == [k |-> "var", segs |-> <<[t |-> "k", v |-> "forloop"], [t |-> "k", v |-> "parentloop"], [t |-> "k", v |-> "index"]>>]
PartL == <<NText("[l:"), For("j", RangeE(I(1), I(2)), "(1..2)", NoOpt, NoOpt, FALSE, <<NOut(P(VP("forloop", "index"))), NText("<"), NOut(P(FLP)), NText(">")>>, NoElse), NText("]")>>
Boom == NOut(F(I(1), <<Fl("divided_by", <<I(0)>>)>>))       \* raises LiquidTypeError
PartE == <<NText("[e:"), Assign("y", P(S("E"))), Boom, NText("]")>>
\* a partial that renders another one (the inner one sees neither the outer one's arguments nor its
\* assignments), and a chain whose overriding block renders a partial (which sees nothing of the base)
PartRR == <<NText("[rr:"), Assign("y", P(S("RR"))), RenderT(S("p"), "none", NilE, "", <<>>), RenderT(S("p"), "with", X, "q", <<>>), NOut(P(X)), NText("]")>>
PartXB == <<Assign("z", P(S("BASE"))), NText("<"), Block("k", FALSE, <<NText("k")>>), NText(">")>>
PartXC == <<Extends("xb"), Block("k", FALSE, <<RenderT(S("p"), "none", NilE, "", <<>>), NOut(P(Z))>>)>>
MCPartials == << <<"p", PartP>>, <<"q", PartQ>>, <<"r", PartR>>, <<"s", PartS>>, <<"b", PartB>>, <<"e", PartE>>, <<"l", PartL>>, <<"dir/q.html", PartQ>>,
                 <<"rr", PartRR>>, <<"xb", PartXB>>, <<"xc", PartXC>> >>

MCData == { << <<<<"x", vx>>, <<"y", Str("Y")>>, <<"arr", Arr(<<IntV(1), IntV(2)>>)>>, <<"n", Str("p")>>>>, <<>>, <<>>, <<>> >>
              : vx \in {Str("X")} }
          \cup { << <<<<"arr", Arr(<<Str("a")>>)>>, <<"n", Str("nosuch")>>>>, <<>>, <<>>, <<>> >> }
          \cup { << <<>>, <<>>, <<>>, <<>> >> }          \* no data at all
MCCfgs == {Cfg("+", TRUE, FALSE, "default")}

MacroM == Macro("m", <<Param("x"), ParamD("w", Y)>>,
                <<NText("(m:"), NOut(P(X)), Sep, NOut(P(V("w"))), Sep, NOut(P(Y)), Sep, NOut(P(Z)), Sep, NOut(P(V("args"))),
                  Assign("z", P(S("M"))), Incr("c"), NText(")")>>)
MacroI == Macro("i", <<>>, <<Include(S("p"), "none", NilE, "", <<>>)>>)

Leaves == {Assign("x", P(S("x1"))), Assign("y", P(X)), Assign("z", P(I(7))), Capture("z", <<NText("cz"), NOut(P(X))>>),
           Incr("c"), Decr("c"), Incr("x"), NOut(P(X)), NOut(P(Y)), NOut(P(Z)), NOut(P(V("c"))), NOut(P(V("p"))), NOut(P(V("w"))),
           NText(",")}
Partial == {Include(S("p"), "none", NilE, "", <<>>),
            Include(S("p"), "with", X, "", <<>>),
            Include(S("p"), "with", I(5), "q", <<>>),
            Include(S("q"), "for", V("arr"), "", <<>>),
            Include(S("q"), "for", V("arr"), "x", <<WArg("y", I(9))>>),
            Include(S("p"), "none", NilE, "", <<WArg("x", I(8)), WArg("z", Y)>>),
            Include(V("n"), "none", NilE, "", <<>>),
            \* a keyword argument named like the variable the tag iterates / binds
            Include(S("q"), "for", V("arr"), "x", <<WArg("arr", RangeE(I(5), I(6)))>>), Include(S("q"), "with", V("arr"), "x", <<WArg("arr", I(7))>>),
            RenderT(S("q"), "for", V("arr"), "x", <<WArg("arr", RangeE(I(5), I(6)))>>),
            Quoted(Include(S("p"), "with", I(5), "q", <<>>)), Quoted(RenderT(S("s"), "for", V("arr"), "x", <<>>)),
            Include(S("dir/q.html"), "with", I(5), "", <<>>), Include(S("dir/q.html"), "for", V("arr"), "", <<>>),
            RenderT(S("dir/q.html"), "with", I(6), "", <<>>), RenderT(S("dir/q.html"), "for", V("arr"), "", <<>>),
            Include(S("b"), "none", NilE, "", <<>>),
            RenderT(S("p"), "none", NilE, "", <<>>),
            RenderT(S("p"), "with", X, "", <<>>),
            RenderT(S("p"), "with", V("arr"), "q", <<>>),
            RenderT(S("q"), "for", V("arr"), "", <<>>),
            RenderT(S("s"), "for", V("arr"), "", <<>>),
            RenderT(S("s"), "for", RangeE(I(1), I(3)), "x", <<WArg("v", I(0))>>),
            RenderT(S("p"), "none", NilE, "", <<WArg("x", I(8)), WArg("z", Y)>>),
            RenderT(S("r"), "none", NilE, "", <<>>),
            RenderT(S("b"), "none", NilE, "", <<>>),
            RenderT(S("nosuch"), "none", NilE, "", <<>>),
            RenderT(S("rr"), "none", NilE, "", <<WArg("x", I(8)), WArg("z", Y)>>), RenderT(S("rr"), "with", X, "y", <<>>),
            Include(S("xc"), "none", NilE, "", <<>>), RenderT(S("xc"), "none", NilE, "", <<WArg("z", I(3))>>), Include(S("rr"), "none", NilE, "", <<>>)}
Blocks == {With(<<WArg("x", I(1)), WArg("w", Y)>>, <<NOut(P(X)), Assign("x", P(I(2))), NOut(P(X)), NOut(P(V("w")))>>),
           With(<<WArg("y", X)>>, <<Include(S("p"), "none", NilE, "", <<>>)>>),
           With(<<WArg("x", S("in")), WArg("w", X), WArg("y", V("w"))>>, <<NOut(P(V("w"))), Sep, NOut(P(Y))>>),
           For("x", V("arr"), "arr", NoOpt, NoOpt, FALSE, <<NOut(P(X)), Assign("y", P(X))>>, NoElse),
           For("i", V("arr"), "arr", NoOpt, NoOpt, FALSE, <<RenderT(S("q"), "with", V("i"), "", <<>>)>>, NoElse),
           For("i", V("arr"), "arr", NoOpt, NoOpt, FALSE, <<Include(S("b"), "none", NilE, "", <<>>), NOut(P(V("i")))>>, NoElse),
           For("i", V("arr"), "arr", NoOpt, NoOpt, FALSE, <<Include(S("q"), "none", NilE, "", <<>>)>>, NoElse),
           With(<<WArg("x", I(1))>>, <<NOut(P(X)), Boom>>),
           For("x", V("arr"), "arr", NoOpt, NoOpt, FALSE, <<NOut(P(X)), Boom>>, NoElse),
           For("i", V("arr"), "arr", NoOpt, NoOpt, FALSE, <<With(<<WArg("x", V("i"))>>, <<Include(S("e"), "none", NilE, "", <<>>)>>)>>, NoElse),
           Include(S("e"), "with", X, "", <<WArg("z", I(1))>>), RenderT(S("e"), "for", V("arr"), "", <<>>),
           Macro("bm", <<Param("x")>>, <<NOut(P(X)), Boom>>), Call("bm", <<I(1)>>, <<>>),
           Capture("z", <<NText("c"), Boom>>),
           For("i", V("arr"), "arr", NoOpt, NoOpt, FALSE, <<RenderT(S("l"), "none", NilE, "", <<>>)>>, NoElse),
           For("i", V("arr"), "arr", NoOpt, NoOpt, FALSE, <<Include(S("l"), "none", NilE, "", <<>>)>>, NoElse),
           Macro("lm", <<>>, PartL),
           For("i", V("arr"), "arr", NoOpt, NoOpt, FALSE, <<Call("lm", <<>>, <<>>)>>, NoElse),
           RenderT(S("l"), "for", V("arr"), "", <<>>),
           MacroM, MacroI,
           Call("m", <<>>, <<>>), Call("m", <<I(1)>>, <<>>), Call("m", <<I(1), I(2), I(3)>>, <<>>),
           Call("m", <<X>>, <<WArg("w", Z)>>), Call("m", <<I(1)>>, <<WArg("x", I(2)), WArg("u", I(3))>>),
           Call("i", <<>>, <<>>), Call("nomacro", <<>>, <<>>)}

MCPool == Leaves \cup Partial \cup Blocks
MCPoolAt(i) == MCPool
=============================================================================
