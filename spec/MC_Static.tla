-------------------------------- MODULE MC_Static --------------------------------
(* Focus "static" (C11): a template and the partials it loads carry the same tags and *)
(* filters at the same offsets (a partial that begins exactly like the template that     *)
(* renders it, sibling partials with the same text), partials reached twice in           *)
(* different scopes, partials nested three deep and a partial named after a variable     *)
(* it reads - so that a report keyed by name or by offset alone loses a location.        *)
EXTENDS LiquidGen, LiquidAst

MCData == { << <<<<"x", Str("ex")>>, <<"y", Str("why")>>, <<"q", Str("cue")>>, <<"z", Bool(zz)>>, <<"card", Hash(<< <<"title", Str("T")>>, <<"owner", Str("O")>> >>)>>>>, <<>>, <<>>, <<>> >>
            : zz \in BOOLEAN }
MCCfgs == {Cfg("+", TRUE, FALSE, "default")}
Up(v) == F(V(v), <<Fl("upcase", <<>>)>>)
MCPartials == <<
  <<"a1", <<Assign("v", Up("x")), NOut(P(V("v"))), RenderT(S("b1"), "none", NilE, "", <<>>)>>>>,
  <<"b1", <<Assign("w", Up("y")), NOut(P(V("w")))>>>>,
  <<"b2", <<Assign("w", Up("y")), NOut(P(V("w")))>>>>,
  <<"c1", <<If(V("z"), <<Include(S("a1"), "none", NilE, "", <<>>)>>, <<>>, NoElse)>>>>,
  <<"rb", <<NText("<"), Block("k", TRUE, <<NOut(F(V("q"), <<Fl("downcase", <<>>)>>)), Assign("rbv", P(V("x")))>>), NText(">")>>>>,
  <<"rc", <<Extends("rb"), Block("k", FALSE, <<NOut(P(VP("block", "super"))), NOut(P(V("y")))>>)>>>>,
  <<"card", <<NOut(P(VP("card", "title"))), NOut(F(V("q"), <<Fl("downcase", <<>>)>>))>>>>,
  \* another path of the same root at the very same offsets of another template
  <<"card2", <<NOut(P(VP("card", "owner"))), NOut(F(V("q"), <<Fl("downcase", <<>>)>>))>>>> >>

MCPoolAt(i) ==
  IF i <= 3 THEN {Assign("u", Up("q")), RenderT(S("a1"), "none", NilE, "", <<>>), Include(S("b1"), "none", NilE, "", <<>>), Include(S("b2"), "none", NilE, "", <<>>),
                  Include(S("c1"), "none", NilE, "", <<>>), RenderT(S("b1"), "none", NilE, "", <<WArg("y", V("q"))>>), NOut(P(V("u"))),
                  RenderT(S("card"), "none", NilE, "", <<>>), Include(S("card"), "none", NilE, "", <<>>), Include(S("card2"), "none", NilE, "", <<>>), RenderT(S("card"), "with", V("x"), "", <<>>),
                  NOut(F(V("q"), <<Fl("downcase", <<>>)>>)), Include(S("rc"), "none", NilE, "", <<>>), RenderT(S("rc"), "none", NilE, "", <<>>),
                  \* the same partial twice with the same argument names, then a read of such a name
                  Include(S("b1"), "none", NilE, "", <<WArg("y", V("q"))>>), Include(S("b1"), "none", NilE, "", <<WArg("y", V("x"))>>), NOut(P(V("y")))}
  ELSE {}
=============================================================================
