-------------------------------- MODULE MC_Attr --------------------------------
(* Focus "attr" (C05): paths, bracketed keys, filter arguments, arrow functions,      *)
(* loop drops and tag arguments drawn from the Python attribute names of the context   *)
(* objects.  In the reference a mapping drop is the hash of the keys it exposes, a     *)
(* sequence drop is the array of its items and a plain instance has no items at all     *)
(* (Opaque): whatever is held only in a Python attribute does not exist.                *)
EXTENDS LiquidGen, LiquidAst

CONSTANT Variant   \* "model" (expected result computed) | "all" (inputs only, every filter that takes a key)

M(v)  == Hash(<< <<"k", Str(v)>>, <<"n", IntV(2)>> >>)
O     == Opaque("OBJ")
MCData == { << <<<<"m", M("vis")>>, <<"s", Arr(<<M("a"), M("b"), M("a")>>)>>, <<"o", O>>, <<"os", Arr(<<O, O>>)>>,
                 <<"mm", Hash(<< <<"in", M("deep")>>, <<"o", O>> >>)>>, <<"key", Str(kk)>>, <<"cb", Opaque("CB")>> >>, <<>>, <<>>, <<>> >>
            : kk \in {"secret", "__class__", "k"} }
MCCfgs == {[Cfg("+", TRUE, FALSE, "default") EXCEPT !.shopify = TRUE]}
MCPartials == << <<"p", <<NText("[p]")>>>> >>

Attrs  == {"secret", "method", "prop", "_private", "__class__", "__dict__", "__init__", "__globals__", "__len__", "__getitem__",
           "__doc__", "__module__", "items", "keys", "data", "get", "num"}
Names  == Attrs \cup {"k", "size", "first"}
Second == {"__name__", "__globals__", "__dict__", "__self__", "__func__", "__mro__", "__subclasses__", "secret", "k", "__class__"}

RootSegs == {<<Key("m")>>, <<Key("o")>>, <<Key("mm"), Key("in")>>, <<Key("mm"), Key("o")>>, <<Key("s"), Idx(0)>>, <<Key("s"), Key("first")>>,
             <<Key("os"), Idx(0)>>, <<Key("s")>>}
Paths1 == {Path(r \o <<Key(n)>>) : r \in RootSegs, n \in Names}
          \cup {Path(r \o <<KeyB(n)>>) : r \in {<<Key("m")>>, <<Key("o")>>}, n \in Attrs}
          \cup {Path(r \o <<Sub(<<Key("key")>>)>>) : r \in RootSegs}
Paths2 == {Path(r \o <<Key(n), Key(n2)>>) : r \in {<<Key("m")>>, <<Key("o")>>}, n \in {"__class__", "method", "__init__", "k", "prop"}, n2 \in Second}

Show == <<Fl("join", <<S(",")>>)>>
KeyF  == IF Variant = "model" THEN {"map", "where", "reject", "sort", "uniq", "compact", "sum", "find_index", "has"}
         ELSE {"map", "where", "reject", "sort", "uniq", "compact", "sum", "find_index", "has", "find", "sort_natural", "sort_numeric", "group_by", "index_by"}
Seqs  == {V("s"), V("os"), V("m"), V("o")}
KeyArgs == {F(sq, <<Fl(f, <<S(n)>>)>>) : sq \in Seqs, f \in KeyF, n \in Attrs \cup {"k"}}
           \cup {F(sq, <<Fl(f, <<S(n)>>), Fl("map", <<S(n)>>)>> \o Show) : sq \in {V("s"), V("os")}, f \in {"where", "sort", "uniq", "compact"}, n \in Attrs}
           \cup {F(sq, <<Fl("map", <<S(n)>>)>> \o Show) : sq \in Seqs, n \in Attrs \cup {"k"}}
           \cup {F(sq, <<Fl("where", <<S(n), I(4242)>>), Fl("size", <<>>)>>) : sq \in {V("s"), V("os")}, n \in Attrs}
           \cup {F(sq, <<Fl("map", <<V("key")>>)>> \o Show) : sq \in Seqs}
Lams  == {F(sq, <<Fl("map", <<Lam(<<"x">>, Path(<<Key("x"), Key(n)>>))>>)>> \o Show) : sq \in {V("s"), V("os")}, n \in Attrs \cup {"k"}}
         \cup {F(sq, <<Fl(f, <<Lam(<<"x">>, Path(<<Key("x"), Key(n)>>))>>), Fl("size", <<>>)>>) : sq \in {V("s"), V("os")}, f \in {"where", "reject"}, n \in Attrs}
         \cup {F(sq, <<Fl("map", <<Lam(<<"x">>, Path(<<Key("x"), Key(n), Key(n2)>>))>>)>> \o Show) : sq \in {V("s"), V("os")}, n \in {"__class__", "method"}, n2 \in Second}
\* keyword arguments named like what the engine itself passes to a filter
Reserved == {F(sq, <<Fk(f, a, <<WArg(kw, obj)>>)>>) : sq \in {V("s"), V("m"), S("lit")}, obj \in {V("o"), V("m")},
                <<f, a, kw>> \in {<<"join", <<S(",")>>, "environment">>, <<"escape", <<>>, "environment">>, <<"url_encode", <<>>, "environment">>,
                                 <<"t", <<>>, "context">>, <<"map", <<S("k")>>, "context">>, <<"gettext", <<>>, "context">>, <<"date", <<S("%Y")>>, "environment">>}}
\* a callable context value where a filter takes a key or an arrow function, and as a plain value
Callables == {F(sq, <<Fl(f, <<V("cb")>>)>>) : sq \in {V("s"), V("os"), V("m")}, f \in KeyF \cup {"find", "has", "find_index", "join", "default", "append"}}
             \cup {P(V("cb")), F(V("cb"), <<Fl("upcase", <<>>)>>), F(V("cb"), <<Fl("size", <<>>)>>), P(Path(<<Key("cb"), Key("__call__")>>))}
PlainF == {F(r, <<Fl(f, <<>>)>>) : r \in {V("m"), V("o"), V("s"), V("os")}, f \in {"size", "first", "last", "join", "upcase", "default", "reverse"}}
\* filters that might take an object for what it can do (format itself as a date, as JSON, as a message ...)
Ducks == {F(r, <<Fl(f, <<>>)>>) : r \in {V("m"), V("o"), V("cb"), V("os")}, f \in {"datetime", "json", "strip_html", "escape", "url_encode", "t", "gettext", "abs", "round", "currency", "decimal"}}
         \cup {F(r, <<Fl("date", <<S(fmt)>>)>>) : r \in {V("m"), V("o"), V("cb")}, fmt \in {"%Y", "secret"}}
         \cup {F(r, <<Fl(f, <<S("x")>>)>>) : r \in {V("m"), V("o")}, f \in {"append", "split", "pgettext", "plus", "truncate", "slice"}}
\* messages with replacement fields that name attributes, through the translation filters
Fields == {"{o.secret}", "{m.secret}", "{o.num}", "{o.__class__}", "{o.method}", "{0.secret}", "%(o)s {o.secret}", "{o[secret]}", "{o!r}", "{o:>{o.num}}"}
Msgs == {F(S(m), <<Fl(f, <<>>)>>) : m \in Fields, f \in {"t", "gettext"}}
        \cup {F(S(m), <<Fk("t", <<>>, <<WArg("o", V("o"))>>)>>) : m \in Fields}
        \cup {F(S(m), <<Fl("ngettext", <<S(m), I(2)>>)>>) : m \in Fields} \cup {F(S(m), <<Fl("pgettext", <<S("ctx")>>)>>) : m \in Fields}

LoopN == {"__class__", "__dict__", "__init__", "_keys", "keys", "it", "step", "items", "item", "parentloop", "length", "secret", "name"}
LoopBodies == {<<NOut(P(Path(<<Key("forloop"), Key(n)>>)))>> : n \in LoopN}
              \cup {<<NOut(P(Path(<<Key("forloop"), Key(n), Key(n2)>>)))>> : n \in {"__class__", "parentloop", "__init__", "step"}, n2 \in {"__name__", "__globals__", "__class__"}}
              \cup {<<NOut(P(Path(<<Key("i"), Key(n)>>)))>> : n \in Attrs \cup {"k"}}
              \cup {<<NOut(P(Path(<<Key("forloop"), Sub(<<Key("key")>>)>>)))>>}
Loops == {For("i", it, src, NoOpt, NoOpt, FALSE, b, NoElse) : <<it, src>> \in {<<V("s"), "s">>, <<V("os"), "os">>}, b \in LoopBodies}
         \cup {For("i", Path(<<Key("m"), Key(n)>>), "m." \o n, NoOpt, NoOpt, FALSE, <<NOut(P(V("i")))>>, NoElse) : n \in Attrs}
         \cup {For("i", Path(<<Key("o"), Key(n)>>), "o." \o n, NoOpt, NoOpt, FALSE, <<NOut(P(V("i")))>>, NoElse) : n \in Attrs}
         \cup {For("i", V("o"), "o", NoOpt, NoOpt, FALSE, <<NOut(P(V("i")))>>, NoElse), For("i", V("m"), "m", NoOpt, NoOpt, FALSE, <<NOut(P(VI("i", 0)))>>, NoElse)}
Rows  == {TableRow("i", V("s"), "s", NoOpt, NoOpt, NoOpt, <<NOut(P(Path(<<Key("tablerowloop"), Key(n)>>)))>>) : n \in LoopN \cup {"col", "row", "ncols"}}

Tags == {If(Path(<<Key(r), Key(n)>>), <<NText("yes")>>, <<>>, NoElse) : r \in {"m", "o"}, n \in Attrs}
        \cup {Assign("a", P(Path(<<Key(r), Key(n)>>))) : r \in {"m", "o"}, n \in {"secret", "method", "__class__", "__dict__"}}
        \cup {Case(Path(<<Key(r), Key("num")>>), <<When(<<I(4242)>>, <<NText("hit")>>)>>, NoElse) : r \in {"m", "o"}}
        \cup {Cycle("", <<Path(<<Key(r), Key(n)>>), S("c")>>, "|" \o r \o n) : r \in {"m", "o"}, n \in {"secret", "method"}}
        \cup {Include(Path(<<Key(r), Key(n)>>), "none", NilE, "", <<>>) : r \in {"m", "o"}, n \in {"secret", "__class__"}}
        \cup {With(<<WArg("w", Path(<<Key(r), Key(n)>>))>>, <<NOut(P(V("w")))>>) : r \in {"m", "o"}, n \in {"secret", "method"}}
        \cup {Echo(F(Path(<<Key(r), Key(n)>>), <<Fl("upcase", <<>>)>>)) : r \in {"m", "o"}, n \in {"secret", "method", "prop"}}
        \cup {NOut(Tern(P(S("t")), Path(<<Key(r), Key("secret")>>), S("f"), <<>>, <<>>)) : r \in {"m", "o"}}
        \cup {NOut(P(TStr(<<S("<"), P(Path(<<Key(r), Key(n)>>)), S(">")>>, "\""))) : r \in {"m", "o"}, n \in {"secret", "__class__"}}
        \cup {If(Contains(V(r), S(n)), <<NText("has")>>, <<>>, NoElse) : r \in {"m", "o"}, n \in {"secret", "k", "__class__"}}

MCPoolAt(i) ==
  CASE i = 1 -> {NOut(P(e)) : e \in Paths1 \cup Paths2} \cup {NOut(e) : e \in KeyArgs \cup Lams \cup PlainF \cup Reserved \cup Callables \cup Ducks \cup Msgs} \cup Loops \cup Rows \cup Tags
    [] i = 2 -> {NOut(P(V("a"))), NOut(P(Path(<<Key("a"), Key("__name__")>>)))}
    [] OTHER -> {}
=============================================================================
