------------------------------- MODULE MC_Cache -------------------------------
(* Model-checking / export wrapper for LiquidCache: when a recorded history is *)
(* complete (operation budget used, no task suspended) it is appended, as one  *)
(* JSON line, to the file named by the environment variable OUT_FILE; the      *)
(* harness replays it into the real caching loaders (S->C).                    *)
EXTENDS LiquidCache, Json, IOUtils

Complete == nops = MaxOps /\ \A t \in Tasks : pend[t] = Idle

Export ==
  (Record /\ Complete) =>
     Serialize(ToJson([ops |-> hist]) \o "\n", IOEnv.OUT_FILE,
               [format |-> "TXT", charset |-> "UTF-8",
                openOptions |-> <<"WRITE", "CREATE", "APPEND">>]).exitValue = 0
===============================================================================
