------------------------------ MODULE Trace_Scope ------------------------------
(***************************************************************************)
(* C->S validation of the scope discipline of a render (C07, C10).         *)
(*                                                                         *)
(* The render context keeps its namespaces in chain maps; tags push a      *)
(* namespace for their block (for, tablerow, with, include arguments,      *)
(* arrow-function parameters, macro arguments ...) and pop it when the     *)
(* block is left - also when it is left by break / continue or an error.   *)
(* The harness records, for every render of a generated program, the       *)
(* sequence of events                                                      *)
(*     enter(node kind)   a syntax-tree node starts to render              *)
(*     exit(node kind)    ... and has finished (normally or not)           *)
(*     push(map) / pop(map)   a namespace enters / leaves chain map `map`  *)
(* and this specification replays it as a machine:                         *)
(*     depth[map]  number of namespaces pushed on a chain map              *)
(*     frames      stack of open nodes, each with the depths it found      *)
(* Accepted traces satisfy                                                 *)
(*     NoUnderflow  a pop always takes off something that was pushed       *)
(*     Balanced     a node that returns leaves every chain map as deep as  *)
(*                  it found it                                            *)
(*     Nested       exit matches the innermost open node                   *)
(*     Clean        after a render that returned nothing is open and every *)
(*                  map is at depth 0                                      *)
(* One verdict line per trace goes to OUT_FILE.                            *)
(***************************************************************************)
EXTENDS Integers, Sequences, TLC, Json, IOUtils

Traces == ndJsonDeserialize(IOEnv.TRACE_FILE)

VARIABLE tid

\* depth of a chain map (0 for one not seen yet); chain maps are numbered as they appear
D(f, m) == IF m \in DOMAIN f THEN f[m] ELSE 0
Set(f, m, v) == [x \in DOMAIN f \cup {m} |-> IF x = m THEN v ELSE f[x]]
Same(f, g) == \A m \in DOMAIN f \cup DOMAIN g : D(f, m) = D(g, m)
Empty == [m \in {} |-> 0]

\* state of the machine: depth per chain map, stack of frames, first failing clause ("" = none)
Start == [depth |-> Empty, frames |-> <<>>, bad |-> ""]

Step(s, ev) ==
  IF s.bad # "" THEN s
  ELSE CASE ev.e = "push" -> [s EXCEPT !.depth = Set(@, ev.m, D(@, ev.m) + 1)]
         \* (a pop on a chain map this trace never saw belongs to an earlier render: the finaliser of a
         \* generator that an error abandoned - CPython runs it whenever the cycle is collected)
         [] ev.e = "pop"  -> IF ev.m \notin DOMAIN s.depth THEN s
                             ELSE IF s.depth[ev.m] = 0 THEN [s EXCEPT !.bad = "underflow"]
                             ELSE [s EXCEPT !.depth = Set(@, ev.m, D(@, ev.m) - 1)]
         [] ev.e = "enter" -> [s EXCEPT !.frames = Append(@, [n |-> ev.n, depth |-> s.depth])]
         [] ev.e = "exit" ->
              IF s.frames = <<>> \/ s.frames[Len(s.frames)].n # ev.n THEN [s EXCEPT !.bad = "nesting:" \o ev.n]
              \* a node left by an exception may still owe pops (they come when the exception is released)
              ELSE IF ~ev.raised /\ ~Same(s.frames[Len(s.frames)].depth, s.depth) THEN [s EXCEPT !.bad = "unbalanced:" \o ev.n]
              ELSE [s EXCEPT !.frames = SubSeq(@, 1, Len(@) - 1)]
         [] OTHER -> [s EXCEPT !.bad = "unknown-event"]

RECURSIVE Run(_, _, _)
Run(s, evs, i) == IF i > Len(evs) THEN s ELSE Run(Step(s, evs[i]), evs, i + 1)

Clause(tr) ==
  LET s == Run(Start, tr.events, 1) IN
  IF s.bad # "" THEN s.bad
  ELSE IF s.frames # <<>> THEN "open-node-at-end:" \o s.frames[Len(s.frames)].n
  ELSE IF ~tr.raised /\ ~Same(s.depth, Empty) THEN "namespace-left-behind"
  ELSE ""

Verdict ==
  LET tr == Traces[tid]
      cl == Clause(tr) IN
  Serialize(ToJson([id |-> tr.id, ok |-> (cl = ""), clause |-> cl]) \o "\n", IOEnv.OUT_FILE,
            [format |-> "TXT", charset |-> "UTF-8",
             openOptions |-> <<"WRITE", "CREATE", "APPEND">>]).exitValue = 0

Init == tid \in 1..Len(Traces)
Next == UNCHANGED tid
=============================================================================
