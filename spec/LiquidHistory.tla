------------------------------ MODULE LiquidHistory ------------------------------
(***************************************************************************)
(* Histories of public calls on long-lived objects (C09): one Environment, *)
(* its loader and the Template objects it has produced are used again and  *)
(* again - render, render_async, analyze, from_string + render,            *)
(* get_template + render - while the clock advances, some renders fail     *)
(* part-way (the k-th access to the caller's data raises) and a second     *)
(* Environment is configured differently.                                  *)
(*                                                                         *)
(* The design keeps all render state in a per-call context, so the result  *)
(* of a call is a function of its inputs and the clock.  The model makes   *)
(* the one piece of persistent state the code had - a memo on the date     *)
(* filter - a named deviation: with it, TLC refutes HistoryIndependent.    *)
(***************************************************************************)
EXTENDS Integers, Sequences, TLC, Json, IOUtils

CONSTANTS MaxOps, MaxFault, Dev, Focus

\* the templates of the pool: what each exercises, and whether its output shows the clock
Pool == <<
  [name |-> "counters", clocked |-> FALSE,
   src |-> "{% increment c %}{% increment c %}{% decrement d %}{% cycle 'a', 'b' %}{% cycle 'a', 'b' %}{% cycle 'a', 'b' %}|{{ x.a }}"],
  [name |-> "offsets", clocked |-> FALSE,
   src |-> "{% for i in x.l limit: 2 %}{{ i }}{% endfor %}|{% for i in x.l offset: continue %}{{ i }}{% endfor %}|{{ x.b }}"],
  [name |-> "captures", clocked |-> FALSE,
   src |-> "{{ z }}{% capture z %}[{{ x.a }}]{% endcapture %}{% assign y = x.b %}{{ z }}{{ y }}{% macro m a %}({{ a }}){% endmacro %}{% call m x.a %}"],
  [name |-> "inherit", clocked |-> FALSE,
   src |-> "{% extends 'base' %}{% block b %}child {{ x.a }} {{ block.super }}{% endblock %}"],
  [name |-> "partials", clocked |-> FALSE,
   src |-> "{% include 'inc' %}{% render 'inc', x: x %}{% include 'inc' %}{{ v }}"],
  [name |-> "clock", clocked |-> TRUE,
   src |-> "{{ now }}|{{ today }}|{{ 'now' | date: '%s' }}|{{ 'today' | date: '%s' }}|{{ x.a }}"],
  [name |-> "clockloop", clocked |-> TRUE,
   src |-> "{% for i in x.l %}{{ 'now' | date: '%s' }};{% endfor %}{{ x.b | date: '%s' }}"] >>
Partials == << [name |-> "base", src |-> "[{% block b %}base {{ x.b }}{% endblock %}|{% block c %}c{% increment n %}{% endblock %}]"],
               [name |-> "inc", src |-> "<{% increment k %}{% assign v = x.a %}{{ v }}>"] >>

TIds == DOMAIN Pool
Calls == {"render", "render_async", "analyze", "from_string", "get_template"}

VARIABLES hist, clock, memo, last, expect
vars == <<hist, clock, memo, last, expect>>

\* what a call returns, abstractly: which template, which data, the clock if it shows
Value(t, d, c) == [t |-> t, d |-> d, c |-> IF Pool[t].clocked THEN c ELSE 0]

Init == hist = <<>> /\ clock = 0 /\ memo = [t \in TIds |-> -1] /\ last = [kind |-> "none"] /\ expect = [kind |-> "none"]

Call(kind, t, d, fault, env) ==
  /\ Len(hist) < MaxOps
  /\ hist' = Append(hist, [op |-> kind, t |-> t, d |-> d, fault |-> fault, env |-> env])
  /\ LET seen == IF "DateMemo" \in Dev /\ Pool[t].clocked /\ memo[t] >= 0 THEN memo[t] ELSE clock IN
     /\ last' = IF fault > 0 THEN [kind |-> "fault"] ELSE [kind |-> "ok", v |-> Value(t, d, seen)]
     /\ memo' = IF "DateMemo" \in Dev /\ Pool[t].clocked /\ memo[t] < 0 /\ fault = 0 THEN [memo EXCEPT ![t] = clock] ELSE memo
  /\ expect' = IF fault > 0 THEN [kind |-> "fault"] ELSE [kind |-> "ok", v |-> Value(t, d, clock)]
  /\ UNCHANGED clock
Tick ==
  /\ Len(hist) < MaxOps
  /\ hist' = Append(hist, [op |-> "tick", t |-> 0, d |-> 0, fault |-> 0, env |-> 1])
  /\ clock' = clock + 1
  /\ last' = [kind |-> "none"] /\ expect' = [kind |-> "none"]
  /\ UNCHANGED memo
Next == \/ \E k \in Calls, t \in TIds, d \in 1..2, f \in 0..MaxFault, e \in 1..2 : Call(k, t, d, f, e)
        \/ Tick

\* the result of step i is the result of the same call on fresh objects
HistoryIndependent == last = expect

Export ==
  Len(hist) = MaxOps =>
    Serialize(ToJson([focus |-> Focus, ops |-> hist]) \o "\n", IOEnv.OUT_FILE,
              [format |-> "TXT", charset |-> "UTF-8", openOptions |-> <<"WRITE", "CREATE", "APPEND">>]).exitValue = 0
ExportPool ==
  hist = <<>> =>
    Serialize(ToJson([pool |-> Pool, partials |-> Partials]) \o "\n", IOEnv.WORKDIR \o "/pool.json",
              [format |-> "TXT", charset |-> "UTF-8", openOptions |-> <<"WRITE", "CREATE", "TRUNCATE_EXISTING">>]).exitValue = 0
=============================================================================
