------------------------------ MODULE LiquidHistory ------------------------------
(***************************************************************************)
(* Histories of public calls on long-lived objects (C09): Environments,    *)
(* their loaders and the Template objects they have produced are used      *)
(* again and again - render, render_async, analyze, from_string + render,  *)
(* get_template + render, two render_async calls interleaved at their      *)
(* await points - while the clock advances, the loader's contents are      *)
(* edited, some renders fail part-way (the k-th access to the caller's     *)
(* data, or the k-th loader call, raises) and a second Environment is      *)
(* configured differently.                                                 *)
(*                                                                         *)
(* The design keeps all render state in a per-call context, so the result  *)
(* of a call is a function of its inputs: template, data, loader contents  *)
(* and clock.  The pieces of persistent state the code had or could grow   *)
(* are named deviations, each refuted by TLC (non-vacuity):                *)
(*   DateMemo     a memo on the date filter (as found)                     *)
(*   PartialMemo  a tag remembering the partial it loaded last             *)
(*   SharedNode   per-render state parked on a syntax-tree node shared by  *)
(*                two concurrent renders of one Template                   *)
(*   SharedLoader a caching loader used by two Environments hands the      *)
(*                second what it parsed for the first (as found)           *)
(* Environment 3 is configured differently from Environment 2 and uses the *)
(* very loader object of Environment 2.                                    *)
(***************************************************************************)
EXTENDS Integers, Sequences, TLC, Json, IOUtils

CONSTANTS MaxOps, MaxFault, Dev, Focus,
          Kinds,        \* which kinds of step are generated: subset of {"call", "tick", "edit", "pair"}
          MaxSched,     \* length of the schedule prefix of a concurrent pair
          TSet, DSet,   \* the templates / data sets of this run ({} = all)
          ESet          \* the Environments of this run

\* the templates of the pool: what each exercises, whether its output shows the clock,
\* whether it reads partials from the loader
Pool == <<
  [name |-> "counters", clocked |-> FALSE, loads |-> FALSE,
   src |-> "{% increment c %}{% increment c %}{% decrement d %}{% cycle 'a', 'b' %}{% cycle 'a', 'b' %}{% cycle 'a', 'b' %}|{{ x.a }}"],
  [name |-> "offsets", clocked |-> FALSE, loads |-> FALSE,
   src |-> "{% for i in x.l limit: 2 %}{{ i }}{% endfor %}|{% for i in x.l offset: continue %}{{ i }}{% endfor %}|{{ x.b }}"],
  [name |-> "captures", clocked |-> FALSE, loads |-> FALSE,
   src |-> "{{ z }}{% capture z %}[{{ x.a }}]{% endcapture %}{% assign y = x.b %}{{ z }}{{ y }}{% macro m a %}({{ a }}){% endmacro %}{% call m x.a %}"],
  [name |-> "inherit", clocked |-> FALSE, loads |-> TRUE,
   src |-> "{% extends 'base' %}{% block b %}child {{ x.a }} {{ block.super }}{% endblock %}"],
  [name |-> "partials", clocked |-> FALSE, loads |-> TRUE,
   src |-> "{% include 'inc' %}{% render 'inc', x: x %}{% include 'inc' %}{{ v }}"],
  [name |-> "clock", clocked |-> TRUE, loads |-> FALSE,
   src |-> "{{ now }}|{{ today }}|{{ 'now' | date: '%s' }}|{{ 'today' | date: '%s' }}|{{ x.a }}"],
  [name |-> "clockloop", clocked |-> TRUE, loads |-> FALSE,
   src |-> "{% for i in x.l %}{{ 'now' | date: '%s' }};{% endfor %}{{ x.b | date: '%s' }}"],
  \* filters that read the render context (translations, message variables, arrow functions), with
  \* arguments that suspend in async renders
  [name |-> "ctxfilters", clocked |-> FALSE, loads |-> FALSE,
   src |-> "{{ 'v=%(v)s w=%(w)s' | t: w: x.a }}|{{ x.l | map: i => i | join: v }}|{{ x.l | where: i => i == x.n | first }}|{{ x.a | default: v }}"],
  [name |-> "loops", clocked |-> FALSE, loads |-> TRUE,
   src |-> "{% for i in x.l %}{% render 'inc', x: x %}{% cycle 'p', 'q', 'r' %}{% endfor %}{% render 'inc' for x.l as x %}"],
  \* a macro is called before the render that defines it has defined it; blocks inside partials
  [name |-> "macros", clocked |-> FALSE, loads |-> TRUE,
   src |-> "{% call m x.a %}|{% macro m v %}<{{ v }}{% increment mc %}>{% endmacro %}{% call m x.b %}{% include 'usesmacro' %}"],
  \* a render tag inside a macro body; a partial that is itself an inheritance chain; a call site whose macro
  \* depends on the data; date strings that leave part of the date to "today"
  [name |-> "macrorender", clocked |-> FALSE, loads |-> TRUE,
   src |-> "{% macro m %}{% render 'inc', x: x %}{% endmacro %}{% call m %}|{{ x.a }}"],
  [name |-> "renderchain", clocked |-> FALSE, loads |-> TRUE,
   src |-> "{% render 'chain', x: x %}|{% render 'chain', x: x %}"],
  [name |-> "macrobranch", clocked |-> FALSE, loads |-> FALSE,
   src |-> "{% if x.n == 2 %}{% macro m a, b='B' %}1:{{ a }}{{ b }}{% endmacro %}{% else %}{% macro m b, a='A' %}2:{{ a }}{{ b }}{% endmacro %}{% endif %}{% call m x.a %}"],
  [name |-> "partialdate", clocked |-> TRUE, loads |-> FALSE,
   src |-> "{{ '10:30' | date: '%Y-%m-%d %H:%M' }}|{{ 'March 5' | date: '%Y-%m-%d' }}|{{ x.a }}"],
  \* several branches over one subject with a suspension inside each branch (a value parked on the shared tree
  \* between two `when`s is overwritten by a concurrent render); `gv` is bound by the globals a caller hands to
  \* from_string / get_template - part of the data set d, so a later caller's globals must win over an earlier one's
  [name |-> "branches", clocked |-> FALSE, loads |-> FALSE,
   src |-> "{% case x.n %}{% when 2 %}two {{ x.a }}{% when 5, 7 %}five {{ x.b }}{% else %}other {{ x.a }}{% endcase %}|{% if x.n == 2 %}{{ x.a }}{% elsif x.n == 5 %}{{ x.b }}{% else %}{{ x.l | first }}{% endif %}|{% unless x.n == 5 %}{{ x.a }}{% else %}{{ x.b }}{% endunless %}|{{ gv }}|{{ envname }}|{{ 'q' | upcase }}"] >>
\* two versions of every partial: an Edit step switches the loader of Environment 1 to the other one
Partials == << [name |-> "base", src |-> "[{% block b %}base {{ x.b }}{% endblock %}|{% block c %}c{% increment n %}{% endblock %}]",
                src2 |-> "<<{% block b %}BASE2 {{ x.a }}{% endblock %}>>"],
               [name |-> "inc", src |-> "<{% increment k %}{% assign v = x.a %}{{ v }}{{ envname }}>", src2 |-> "(inc2 {{ x.b }}{{ envname }})"],
               [name |-> "chain", src |-> "{% extends 'base' %}{% block b %}ch {{ x.a }}{% endblock %}", src2 |-> "{% extends 'base' %}{% block c %}CH2{% endblock %}"],
               [name |-> "usesmacro", src |-> "[{% call m 'p' %}{% macro m v %}({{ v }}){% endmacro %}]", src2 |-> "[{% call m 'q' %}]"] >>

TIds == IF TSet = {} THEN DOMAIN Pool ELSE TSet
DIds == IF DSet = {} THEN 1..2 ELSE DSet
Calls == {"render", "render_async", "analyze", "from_string", "get_template"}
PairIds == {t \in TIds : Pool[t].name \in {"ctxfilters", "partials", "counters", "loops", "macros", "macrorender", "renderchain", "branches"}}

RECURSIVE SeqsUpTo(_, _)
SeqsUpTo(E, n) == IF n = 0 THEN {<<>>} ELSE SeqsUpTo(E, n - 1) \cup {Append(s, x) : s \in SeqsUpTo(E, n - 1), x \in E}
Scheds == {s \in SeqsUpTo({1, 2}, MaxSched) : Len(s) = MaxSched}

VARIABLES hist, clock, content, memo, pmemo, last, expect,
          owner        \* SharedLoader: which of Environments 2 / 3 the shared loader parsed a template for (0: none yet)
vars == <<hist, clock, content, memo, pmemo, last, expect, owner>>
Envs == 1..3
EIds == ESet
\* the loader an Environment reads: 3 shares 2's
LoaderOf(e) == IF e = 3 THEN 2 ELSE e

\* what a call returns, abstractly: which template, which data, the clock if it shows, the
\* loader contents if it loads
\* (e: the Environment whose configuration shows in what was loaded - the caller's, by design)
Value(t, d, c, v, e) == [t |-> t, d |-> d, c |-> IF Pool[t].clocked THEN c ELSE 0, v |-> IF Pool[t].loads THEN v ELSE 0, e |-> e]

Init == /\ hist = <<>> /\ clock = 0 /\ content = [e \in 1..2 |-> 1]
        /\ memo = [t \in DOMAIN Pool |-> -1] /\ pmemo = [e \in Envs |-> [t \in DOMAIN Pool |-> 0]]
        /\ owner = [t \in DOMAIN Pool |-> 0]
        /\ last = <<>> /\ expect = <<>>

\* fk: "data" (the k-th access to the caller's data raises) | "loader" (the k-th loader call raises)
Call(kind, t, d, fk, fault, env) ==
  /\ "call" \in Kinds
  /\ Len(hist) < MaxOps
  \* (a caching loader calls its inner loader less often - by design, see C14: loader faults on Environment 1 only)
  /\ fk = "loader" => (fault > 0 /\ Pool[t].loads /\ kind # "analyze" /\ env = 1)
  /\ hist' = Append(hist, [op |-> kind, t |-> t, d |-> d, fk |-> fk, fault |-> fault, env |-> env, t2 |-> 0, d2 |-> 0, sched |-> <<>>])
  /\ LET seenClock == IF "DateMemo" \in Dev /\ Pool[t].clocked /\ memo[t] >= 0 THEN memo[t] ELSE clock
         cached == kind \in {"render", "render_async"}          \* the long-lived Template object is used
         seenContent == IF "PartialMemo" \in Dev /\ cached /\ pmemo[env][t] > 0 THEN pmemo[env][t] ELSE content[LoaderOf(env)]
         \* through the loader: get_template itself, and whatever loads partials
         loaded == env \in {2, 3} /\ (kind = "get_template" \/ Pool[t].loads)
         seenEnv == IF "SharedLoader" \in Dev /\ loaded /\ owner[t] # 0 THEN owner[t] ELSE env
     IN
     /\ last' = IF fault > 0 THEN <<[kind |-> "fault"]>> ELSE <<[kind |-> "ok", v |-> Value(t, d, seenClock, seenContent, seenEnv)]>>
     /\ owner' = IF loaded /\ owner[t] = 0 /\ fault = 0 THEN [owner EXCEPT ![t] = env] ELSE owner
     /\ memo' = IF "DateMemo" \in Dev /\ Pool[t].clocked /\ memo[t] < 0 /\ fault = 0 THEN [memo EXCEPT ![t] = clock] ELSE memo
     /\ pmemo' = IF "PartialMemo" \in Dev /\ cached /\ Pool[t].loads /\ pmemo[env][t] = 0 /\ fault = 0
                 THEN [pmemo EXCEPT ![env][t] = content[LoaderOf(env)]] ELSE pmemo
  /\ expect' = IF fault > 0 THEN <<[kind |-> "fault"]>> ELSE <<[kind |-> "ok", v |-> Value(t, d, clock, content[LoaderOf(env)], env)]>>
  /\ UNCHANGED <<clock, content>>

Tick ==
  /\ "tick" \in Kinds
  /\ Len(hist) < MaxOps
  /\ hist' = Append(hist, [op |-> "tick", t |-> 0, d |-> 0, fk |-> "data", fault |-> 0, env |-> 1, t2 |-> 0, d2 |-> 0, sched |-> <<>>])
  /\ clock' = clock + 1
  /\ last' = <<>> /\ expect' = <<>>
  /\ UNCHANGED <<memo, pmemo, content, owner>>

\* the partials in the loader of Environment 1 are replaced by their other version
Edit ==
  /\ "edit" \in Kinds
  /\ Len(hist) < MaxOps
  /\ hist' = Append(hist, [op |-> "edit", t |-> 0, d |-> 0, fk |-> "data", fault |-> 0, env |-> 1, t2 |-> 0, d2 |-> 0, sched |-> <<>>])
  /\ content' = [content EXCEPT ![1] = 3 - @]
  /\ last' = <<>> /\ expect' = <<>>
  /\ UNCHANGED <<clock, memo, pmemo, owner>>

\* two render_async calls on long-lived Template objects of one Environment, interleaved at
\* their await points as `sched` says (then round-robin); same template = same Template object
Interleaved(s) == \E i, j \in DOMAIN s : i < j /\ s[i] # s[j] /\ \E k \in DOMAIN s : k > j /\ s[k] = s[i]
Pair(t1, d1, t2, d2, s, env) ==
  /\ "pair" \in Kinds
  /\ Len(hist) < MaxOps
  /\ hist' = Append(hist, [op |-> "pair", t |-> t1, d |-> d1, fk |-> "data", fault |-> 0, env |-> env, t2 |-> t2, d2 |-> d2, sched |-> s])
  /\ LET mixed == "SharedNode" \in Dev /\ t1 = t2 /\ d1 # d2 /\ Interleaved(s) IN
     last' = << [kind |-> "ok", v |-> Value(t1, IF mixed THEN d2 ELSE d1, clock, content[LoaderOf(env)], env)],
                [kind |-> "ok", v |-> Value(t2, d2, clock, content[LoaderOf(env)], env)] >>
  /\ expect' = << [kind |-> "ok", v |-> Value(t1, d1, clock, content[LoaderOf(env)], env)], [kind |-> "ok", v |-> Value(t2, d2, clock, content[LoaderOf(env)], env)] >>
  /\ UNCHANGED <<clock, content, memo, pmemo, owner>>

Next == \/ \E k \in Calls, t \in TIds, d \in DIds, f \in 0..MaxFault, e \in EIds : Call(k, t, d, "data", f, e)
        \/ \E k \in Calls, t \in TIds, d \in DIds, f \in 1..MaxFault, e \in {1} \cap EIds : Call(k, t, d, "loader", f, e)
        \/ Tick \/ Edit
        \/ \E t1 \in PairIds \cap TIds, t2 \in PairIds \cap TIds, d1 \in 1..2, d2 \in 1..2, s \in Scheds, e \in EIds : t1 <= t2 /\ Pair(t1, d1, t2, d2, s, e)

\* the result of every step is the result of the same call on fresh objects
HistoryIndependent == last = expect

Export ==
  Len(hist) = MaxOps =>
    Serialize(ToJson([focus |-> Focus, ops |-> hist]) \o "\n", IOEnv.OUT_FILE,
              [format |-> "TXT", charset |-> "UTF-8", openOptions |-> <<"WRITE", "CREATE", "APPEND">>]).exitValue = 0
ExportPool ==
  hist = <<>> =>
    Serialize(ToJson([pool |-> Pool, partials |-> Partials]) \o "\n", IOEnv.WORKDIR \o "/pool.json",
              [format |-> "TXT", charset |-> "UTF-8", openOptions |-> <<"WRITE", "CREATE", "TRUNCATE_EXISTING">>]).exitValue = 0
=============================================================================
